"""usage: dump_smt.py <ll> <model> <bound> <query> <out.smt2> [opt=val...]  -- writes the SMT-LIB text of one query (debugging / cvc5 cross-check)"""
import sys; sys.path.insert(0, '/verif/engine')
import z3
from irparse import parse_module
from vsym import Engine
ll, model, bound, what, out = sys.argv[1:6]
opts = dict(a.split('=', 1) for a in sys.argv[6:])
mod = parse_module(open(ll).read())
names = sorted((n for n in mod.funcs if n.startswith('@vf_thread_') and mod.funcs[n].defined), key=lambda n: int(n.rsplit('_', 1)[1]))
E = Engine(mod, model=model, loop_bound=int(bound)); E.opts = opts
E.run_init('@vf_init')
for i, nm in enumerate(names):
    pn = '@vf_prologue_%d' % i
    if pn in mod.funcs: E.run_prologue(i, pn)
final = '@vf_final' if '@vf_final' in mod.funcs and mod.funcs['@vf_final'].defined else None
for it in range(10):
    E.explore_threads(names, final); E.encode()
    r, m, dt = E.check('oblig')
    if r != 'sat': break
    E.widen(m)
S = E.S
S.push()
for (pc, where, tid) in E.exceeded: S.add(z3.Not(z3.And(*pc)))
if what == 'assert': viol = [z3.And(z3.And(*pc), z3.Not(c)) for (pc, c, text, tid) in E.asserts]
else: viol = [z3.And(*pc) for (pc, fw, text, tid) in E.stuck]
S.add(z3.Or(*viol))
txt = S.sexpr()
open(out, 'w').write('(set-logic ALL)\n' + txt + '\n(check-sat)\n')
print('written', len(txt), 'bytes;', 'bvsdiv' in txt, 'bvudiv' in txt, 'bvsrem' in txt, 'bvurem' in txt, 'bvmul count', txt.count('bvmul'))
