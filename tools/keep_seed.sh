#!/bin/sh
# usage: tools/keep_seed.sh <prop> <seed-dir> "<needs>" "<what I ran>" "<detected-by>"
p=$1; d=$2; mkdir -p /verif/seeded/$p
cp $d/patch.diff /verif/seeded/$p/patch.diff
for f in demo.cpp demo.sh notes.md; do [ -f $d/$f ] && cp $d/$f /verif/seeded/$p/$f; done
python3 - "$p" "$3" "$4" "$5" <<'PY'
import json, sys
p, needs, ran, det = sys.argv[1:5]
json.dump(dict(property=p, breaks=p, needs_to_manifest=needs, confirmed_by=ran, detected_by=det), open('/verif/seeded/%s/meta.json' % p, 'w'), indent=1)
PY
echo kept /verif/seeded/$p
