#!/bin/sh
# usage: tools/keep_seed.sh <prop-or-tag e.g. C08 or C08b> <seed-dir> "<needs>" "<what I ran>" "<detected-by>"
tag=$1; d=$2; p=$(echo $tag | cut -c1-3); mkdir -p /verif/seeded/$tag
cp $d/patch.diff /verif/seeded/$tag/patch.diff
for f in demo.cpp demo.sh notes.md; do [ -f $d/$f ] && cp $d/$f /verif/seeded/$tag/$f; done
python3 - "$p" "$3" "$4" "$5" "$tag" <<'PY'
import json, sys
p, needs, ran, det, tag = sys.argv[1:6]
json.dump(dict(property=p, breaks=p, needs_to_manifest=needs, confirmed_by=ran, detected_by=det), open('/verif/seeded/%s/meta.json' % tag, 'w'), indent=1)
PY
echo kept /verif/seeded/$tag
