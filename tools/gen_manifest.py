#!/usr/bin/env python3
"""Regenerates /verif/MANIFEST.json from scenarios.py + the per-property texts below."""
import json, os, sys
VERIF = os.path.dirname(os.path.dirname(os.path.abspath(__file__)))
sys.path.insert(0, VERIF)
import scenarios as SC

TECH = 'bounded symbolic execution of the clang LLVM IR of the real code + SMT (z3) over all interleavings / weak-memory reads-from / symbolic inputs within stated bounds'
TEXT = SC.LEVEL_TEXT
NA = SC.NOT_APPLICABLE

props = [json.loads(l) for l in open(os.path.join(VERIF, 'properties.jsonl'))]
claimed = sorted(set(p for s in SC.ALL for p in s['props'].values()))
checks = []
for p in props:
    pid = p['id']
    if pid not in claimed: continue
    n = {t: sum(1 for s in SC.ALL if pid in s['props'].values() and t in s['tiers']) for t in ('quick', 'thorough')}
    checks.append(dict(
        property_id=pid,
        quick_cmd='./check %s --tier quick' % pid,
        thorough_cmd='./check %s --tier thorough' % pid,
        evidence_file='/verif/evidence/%s.json' % pid,
        replay_cmd_template='./check %s --replay {path}' % pid,
        engine='vsym',
        level_claimed=dict(category='model_checking', design_ref='DESIGN.md section 6 (%s)' % pid,
                           text=TEXT.get(pid, '') + ' Bounded: %d quick / %d thorough scenarios; every verdict is the SMT solver\'s over all executions within the bounds recorded in the evidence file.' % (n['quick'], n['thorough'])),
        level_note='Trusted base: clang++-14 -O1 IR as the subject, opt-14 lowerswitch/scalarizer, /verif/engine (IR parser, symbolic executor, memory-model encoder), z3 5.1, engine stubs for futex/clock/allocation. ' + SC.LEVEL_NOTE.get(pid, ''),
        technique=TECH + SC.TECH_EXTRA.get(pid, '')))
na = [dict(property_id=p['id'], reason=NA.get(p['id'], 'no scenario reaches the mechanism yet; see DESIGN.md')) for p in props if p['id'] not in claimed]
m = dict(version=1,
         setup_cmd='sh /verif/setup.sh',
         hooks=dict(guard='BABYLON_VERIF', enable='none needed: harness TUs instantiate the real templates / link the real .cpp IR; -fno-access-control and scheduling-interface template parameters replace hooks',
                    baseline_off_cmd='cmake --build /repo/_build -j16 && ctest --test-dir /repo/_build -j8 --timeout 900',
                    source_commits=[], add_only=True),
         engines=[dict(name='vsym', path='/verif/engine', serves_properties=claimed,
                       kind_free_text='own LLVM-IR symbolic executor (path merging, guarded memory events) + z3 encoding of sc/tso/arm memory models, futex blocking, symbolic clock; sequential mode for input/history properties')],
         checks=checks, not_applicable=na,
         notes='All checks: ./check <id> [--tier quick|thorough]. exit 0 held / 1 VIOLATION (or KNOWN-FINDING + 0) / 2 inconclusive (never on the unchanged tree). Encoding is regenerated from /repo working tree each run.')
json.dump(m, open(os.path.join(VERIF, 'MANIFEST.json'), 'w'), indent=1)
print('claimed', claimed, 'not_applicable', [x['property_id'] for x in na])
