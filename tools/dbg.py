import sys, os
sys.path.insert(0, '/verif/engine')
import z3
from irparse import parse_module
from vsym import Engine, Unsupported
def load(ll, model='sc', bound=2, verbose=True):
    mod = parse_module(open(ll).read())
    names = sorted((n for n in mod.funcs if n.startswith('@vf_thread_') and mod.funcs[n].defined), key=lambda n: int(n.rsplit('_', 1)[1]))
    E = Engine(mod, model=model, loop_bound=bound, verbose=verbose)
    E.run_init('@vf_init')
    for i, nm in enumerate(names):
        pn = '@vf_prologue_%d' % i
        if pn in mod.funcs: E.run_prologue(i, pn)
    final = '@vf_final' if '@vf_final' in mod.funcs and mod.funcs['@vf_final'].defined else None
    E.explore_threads(names, final); E.encode()
    return E

def load_cegar(ll, model='sc', bound=2, verbose=False):
    mod = parse_module(open(ll).read())
    names = sorted((n for n in mod.funcs if n.startswith('@vf_thread_') and mod.funcs[n].defined), key=lambda n: int(n.rsplit('_', 1)[1]))
    E = Engine(mod, model=model, loop_bound=bound, verbose=verbose)
    E.run_init('@vf_init')
    for i, nm in enumerate(names):
        pn = '@vf_prologue_%d' % i
        if pn in mod.funcs: E.run_prologue(i, pn)
    final = '@vf_final' if '@vf_final' in mod.funcs and mod.funcs['@vf_final'].defined else None
    for it in range(10):
        E.explore_threads(names, final); E.encode()
        r, m, dt = E.check('oblig')
        print('cegar', it, len(E.oblig), r)
        if r != 'sat': break
        print(' widen', E.widen(m))
    return E
