#!/bin/bash
# dev aid: compile one harness file and run one engine query set on it:  dbgrun.sh <file.cpp> [model] [bound] [queries] [opts...]
f=$1; b=${f%.cpp}; m=${2:-sc}; bd=${3:-12}; q=${4:-assert}; if [ $# -ge 4 ]; then shift 4; else shift $#; fi
clang++-14 -std=c++17 -O1 -fno-exceptions -fno-rtti -fno-vectorize -fno-slp-vectorize -fno-unroll-loops -fno-access-control -I/repo/src -I/verif/rt -I/verif/harness $VF_DEFS -S -emit-llvm $f -o $b.0.ll 2>&1 | head -20
opt-14 -S -passes=lowerswitch,scalarizer $b.0.ll -o $b.ll && PYTHONHASHSEED=0 timeout ${VF_TO:-600} python3-vt /verif/engine/worker.py $b.ll $m $bd $q "$@" 2>&1 | tail -1 | python3 -c "
import sys,json
for l in sys.stdin:
    if l.startswith('RESULT'):
        r=json.loads(l[7:]); print(r['status'], r['message'][:600], [(q['what'],q['verdict'],[f['label'] for f in q.get('failing') or []]) for q in r['queries']], r.get('wall_s'))
    else: print(l[:500])"
