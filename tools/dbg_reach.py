"""dev aid: which thread cannot reach its end, which events are unreachable: dbg_reach.py <file.ll> [model] [bound] [opts k=v...]"""
import sys, os
sys.path.insert(0, '/verif/engine')
import z3
from irparse import parse_module
from vsym import Engine
ll = sys.argv[1]; model = sys.argv[2] if len(sys.argv) > 2 else 'sc'; bound = int(sys.argv[3]) if len(sys.argv) > 3 else 2
opts = dict(a.split('=', 1) for a in sys.argv[4:])
mod = parse_module(open(ll).read())
names = sorted((n for n in mod.funcs if n.startswith('@vf_thread_') and mod.funcs[n].defined), key=lambda n: int(n.rsplit('_', 1)[1]))
E = Engine(mod, model=model, loop_bound=bound); E.opts = opts
for k, v in opts.items():
    if k.startswith('loop:'): E.loop_bounds[k[5:]] = int(v)
E.run_init('@vf_init')
for i, nm in enumerate(names):
    pn = '@vf_prologue_%d' % i
    if pn in mod.funcs: E.run_prologue(i, pn)
final = '@vf_final' if '@vf_final' in mod.funcs and mod.funcs['@vf_final'].defined else None
E.explore_threads(names, final); E.encode()
S = E.S
print('base', S.check())
S.push()
for (pc, where, tid) in E.exceeded: S.add(z3.Not(z3.And(*pc)))
print('base+bounds', S.check())
for e in E.events:
    if e.kind == 'F' and e.order in ('end',):
        S.push(); S.add(z3.And(*e.guard) if e.guard else z3.BoolVal(True)); print('end of thread', e.tid, S.check()); S.pop()
last = {}
for e in E.events:
    S.push(); S.add(z3.And(*e.guard) if e.guard else z3.BoolVal(True)); r = S.check(); S.pop()
    if str(r) != 'sat': print('UNREACHABLE', e.tid, e.kind, e.order, e.text[:100]); 
print('exceeded:', [(w, t) for (pc, w, t) in E.exceeded][:10])
S.pop(); S.push()
for i, (pc, where, tid) in enumerate(E.exceeded):
    S.add(z3.Not(z3.And(*pc))); r = S.check()
    print('excl', i, where, tid, r)
    if str(r) == 'unsat': print('   pc =', z3.simplify(z3.And(*pc)).sexpr()[:1500]); break
