#!/bin/sh
# usage: tools/where.sh <prop> <scenario-substring> <model> <seconds>  -- run one worker, dump its Python stack after N seconds
prop=$1; sc=$2; model=$3; secs=${4:-30}
cd /verif
python3 - "$prop" "$sc" <<'PY'
import sys, os, shutil
sys.path.insert(0, '/verif'); sys.argv = ['check'] + sys.argv[1:]
import importlib.machinery, importlib.util
ld = importlib.machinery.SourceFileLoader('chk', '/verif/check'); spec = importlib.util.spec_from_loader('chk', ld); chk = importlib.util.module_from_spec(spec); ld.exec_module(chk)
import scenarios as SC
prop, sub = sys.argv[1], sys.argv[2]
scs = [s for s in SC.ALL if prop in s['props'].values() and sub in s['name']]
bdir = '/verif/build/dbg'; os.makedirs(bdir, exist_ok=True)
for s in scs[:1]:
    ll, err = chk.build_ir(s, bdir); print(ll, err)
    open(bdir + '/last', 'w').write(ll + '\n' + str(s['bound']['quick']) + '\n' + ' '.join('%s=%s' % kv for kv in s['opts'].items()))
PY
ll=$(sed -n 1p build/dbg/last); b=$(sed -n 2p build/dbg/last); o=$(sed -n 3p build/dbg/last)
PYTHONHASHSEED=0 python3-vt engine/worker.py $ll $model $b assert,stuck verbose=1 $o > build/dbg/out.txt 2>&1 &
P=$!; sleep $secs; kill -USR1 $P 2>/dev/null; sleep 1; kill $P 2>/dev/null
grep -v pre-run build/dbg/out.txt | grep -v "^RESULT" | tail -40 | cut -c1-220
grep "^RESULT" build/dbg/out.txt | cut -c1-600
