#!/bin/sh
# usage: tools/mut.sh <prop> <name> <file-under-src/babylon> <sed-expr> [check args...]
# Runs ./check against a scratch copy of /repo/src with one textual mutation (detection-power regression).
prop=$1; name=$2; file=$3; expr=$4; shift 4
d=/root/scratch/mut/$name; rm -rf $d; mkdir -p $d/src; cp -r /repo/src/babylon $d/src/babylon
sed -i "$expr" $d/src/babylon/$file
if diff -q $d/src/babylon/$file /repo/src/babylon/$file >/dev/null; then echo "MUTATION DID NOT APPLY"; rm -rf $d; exit 3; fi
diff /repo/src/babylon/$file $d/src/babylon/$file | head -8
VERIF_REPO=$d /verif/check $prop --no-evidence "$@"; rc=$?
rm -rf $d
echo "mutant $name: exit $rc"
exit $rc
