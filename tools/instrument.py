#!/usr/bin/env python3
"""instrument.py in.ll out.ll -- inserts `call void @vf_rt_sched()` before every instruction the engine counts as a
scheduling point (load/store/atomicrmw/cmpxchg/fence and calls to mem intrinsics, futex/mutex stubs). The counts of the
native replay runtime and of the symbolic executor (Engine.is_sched_point) must agree: same IR, same rule."""
import re, sys
SCHED_CALLS = ('llvm.memcpy', 'llvm.memmove', 'llvm.memset', 'vf_futex_wait', 'vf_futex_wake_one', 'vf_futex_wake_all', 'syscall',
               'pthread_mutex_lock', 'pthread_mutex_unlock')
MEM = re.compile(r'^\s+(%[-\w.$"]+ = )?(load|store|atomicrmw|cmpxchg|fence)\b')
CALL = re.compile(r'^\s+(%[-\w.$"]+ = )?(tail |musttail |notail )?(call|invoke)\b[^@]*@"?([-\w.$]+)"?\(')
def main():
    src, dst = sys.argv[1], sys.argv[2]
    out = []; infn = False; n = 0
    for ln in open(src):
        if ln.startswith('define '): infn = True
        elif ln.startswith('}'): infn = False
        elif infn:
            hit = MEM.match(ln) is not None
            if not hit:
                m = CALL.match(ln)
                hit = m is not None and m.group(4).startswith(SCHED_CALLS) and 'musttail' not in ln
            if hit: out.append('  call void @vf_rt_sched()\n'); n += 1
        out.append(ln)
    out.append('\ndeclare void @vf_rt_sched()\n')
    open(dst, 'w').write(''.join(out))
    print('instrumented', n, 'scheduling points')
main()
