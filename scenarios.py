"""Scenario registry: which harness TU, which -D client program, which models/bounds per tier, and which
query ('assert' / 'stuck') of the scenario decides which property."""
ALL = []

def S(name, src, props, defs=(), std=17, extra=(), models=None, bound=None, tiers=('quick', 'thorough'), expect=None,
      opts=None, qcap=None, timeout=None, cflags=(), xsrc=()):
    if models is None: models = {'quick': ['sc', 'arm'], 'thorough': ['sc', 'tso', 'arm']}
    if isinstance(models, (list, tuple)): models = {'quick': list(models), 'thorough': list(models)}
    if bound is None: bound = {'quick': 2, 'thorough': 3}
    if isinstance(bound, int): bound = {'quick': bound, 'thorough': bound}
    if qcap is None: qcap = {'quick': 300, 'thorough': 1500}
    if isinstance(qcap, int): qcap = {'quick': qcap, 'thorough': qcap}
    if timeout is None: timeout = {'quick': 1200, 'thorough': 5400}
    if isinstance(timeout, int): timeout = {'quick': timeout, 'thorough': timeout}
    assert not any(s['name'] == name for s in ALL), name
    for d in (models, bound, qcap, timeout): d.setdefault('dev', d['thorough'])      # tier 'dev': unregistered experiments (./check <id> --tier dev)
    ALL.append(dict(name=name, src=src, props=dict(props), defs=list(defs), std=std, extra=list(extra), models=models, bound=bound,
                    tiers=tuple(tiers), expect=dict(expect or {}), opts=dict(opts or {}), qcap=qcap, timeout=timeout, cflags=list(cflags), xsrc=list(xsrc)))

ASSUMPTIONS_COMMON = [
    'bounded claim: only the listed scenarios (threads, operations per thread, capacities) and loop unrollings are covered; executions needing more iterations of a loop than the bound are outside the claim unless unwind_proved',
    'subject = LLVM IR produced by clang++-14 -O1 (x86-64 variants of #if code) from /repo working tree; compiler reorderings other than those clang performed are not modelled',
    'memory models: sc (interleaving), tso (store buffers), arm (multi-copy-atomic ARMv8 mapping of C++11 orders + all R->W order); every arm execution is allowed by RC11',
    'operator new never fails and never reuses an address inside one execution; futex/clock/usleep/yield are engine stubs (DESIGN.md 3.4/3.5)',
    'trusted: clang/opt, /verif/engine (IR parser, symbolic executor, encoder), z3 5.1',
]
ASSUMPTIONS = {
 'C05': ['harness-side models (harness/anyflow/libmodel.cpp) stand for the out-of-line libstdc++/abseil functions that have no IR: std::_Hash_bytes (FNV-style), _Prime_rehash_policy::_M_need_rehash (integer only, max_load_factor 1.0), absl raw_hash_set kEmptyGroup / ShouldInsertBackwards / find_first_non_full / ConvertDeletedToEmptyAndFullToDeleted; they are used while the graph is BUILT (set-up, concrete), not in the run protocol under test',
         'translation-unit static constructors are executed (@llvm.global_ctors order) before vf_init; __libc_single_threaded = 0',
         'BABYLON_LOG statements are skipped (root logger min_severity above every severity); ClosureContext::log_unfinished_data (diagnostics only, no shared writes) is not executed',
         'concurrent unit scenarios: the harness GraphExecutor records a vertex invocation and parks the GraphVertexClosure without running it; the harness ClosureContext has empty wait/notify hooks (the counting that decides when they fire is the real ClosureContext code)',
         'compiled with -D_GLIBCXX_ASSERTIONS (libstdc++ container checks become failure sites of the check)'],
}

# ----------------------------------------------------------------------------------------------- C01 / C02: bounded queue
Q = 'queue/q.cpp'
QP = {'assert': 'C01', 'stuck': 'C02'}
def q(name, cap, ts, extra_defs=(), nr=3, **kw):
    S('q_' + name, Q, kw.pop('props', QP), defs=['VF_CAP=%d' % cap, 'VF_NT=%d' % len(ts), 'VF_NR=%d' % nr] + ['VF_T%d=%s' % (i, t) for i, t in enumerate(ts)] + list(extra_defs), **kw)

q('spsc_cap2', 2, ['PUSH(0);PUSH(1)', 'POP();POP()'])
q('spsc_cap1_wrap', 1, ['PUSH(0);PUSH(1);PUSH(2)', 'POP();POP();POP()'])
# the 16-bit slot version at its largest value (65535 = full in round 32767): the next pusher must still register as a waiter
q('version_65535_cap1', 1, ['PUSH(0);PUSH(1)', 'POP();POP()'], extra_defs=['VF_QINIT=q->_next_push_index.store(32767); q->_next_pop_index.store(32767); q->_slots.futex(0)._futex.value().store(65534)'])
# same wrap, the full slot freed by the BATCH pop path (set_version + wakeup_waiters(expected_version + 1) with the 16-bit sum wrapping to 0)
q('version_65535_popn_cap1', 1, ['PUSH(0);PUSH(1)', 'POPN(1);POPN(1)'], extra_defs=['VF_QINIT=q->_next_push_index.store(32767); q->_next_pop_index.store(32767); q->_slots.futex(0)._futex.value().store(65534)'])
q('version_65535_trypopn_cap1', 1, ['PUSH(0);PUSH(1);SIGNAL(0)', 'POPN(1);AWAIT(0);TRYPOPN(1)'], extra_defs=['VF_QINIT=q->_next_push_index.store(32767); q->_next_pop_index.store(32767); q->_slots.futex(0)._futex.value().store(65534)'], tiers=('dev',))
q('mpmc_cap1', 1, ['PUSH(0)', 'PUSH(0)', 'POP()', 'POP()'], models={'quick': ['sc', 'arm'], 'thorough': ['sc', 'tso', 'arm']})
q('cb_cap2', 2, ['PUSHCB(0);PUSHCB(1)', 'POPCB();POPCB()'])
q('pushn_cap2', 2, ['PUSHN(0,2)', 'POP();POP()'])
q('popn_cap2', 2, ['PUSH(0);PUSH(1)', 'POPN(2)'])
q('pushn_wrap_cap2', 2, ['PUSH(0);PUSHN(1,2)', 'POP();POPN(2)'])
q('batch_both_cap2', 2, ['PUSHN(0,2)', 'POPN(2)'])
# mixed modes allowed by the pairing rules: spin-waiting producers that futex-wake, futex-waiting consumers that do not wake
MIXP = ['VF_PFW=false', 'VF_PFK=true', 'VF_CFW=true', 'VF_CFK=false']
q('mixed_pushn_wrap_cap2', 2, ['PUSH(0);PUSHN(1,2)', 'POP();POPN(2)'], extra_defs=MIXP)
q('mixed_pushn_wrap_two_consumers', 2, ['PUSH(0);PUSHN(1,2)', 'POP();POP()', 'POP()'], extra_defs=MIXP)
q('mixed_spsc_cap1', 1, ['PUSH(0);PUSH(1)', 'POP();POP()'], extra_defs=MIXP)
MIXC = ['VF_PFW=true', 'VF_PFK=false', 'VF_CFW=false', 'VF_CFK=true']
q('mixed_popn_wrap_cap2', 2, ['PUSH(0);PUSHN(1,2)', 'POP();POPN(2)'], extra_defs=MIXC)
q('try_mix_cap1', 1, ['TRYPUSH(0);TRYPUSH(1)', 'TRYPOP();TRYPOP()'], extra_defs=['VF_LEFT=1'], props={'assert': 'C01'})
q('try_must_cap2', 2, ['PUSH(0);SIGNAL(0)', 'AWAIT(0);MUST_TRYPOP()'], props={'assert': 'C01'})
q('try_must_push_cap1', 1, ['PUSH(0);SIGNAL(0);', 'AWAIT(0);POP();SIGNAL(1)', 'AWAIT(1);MUST_TRYPUSH(0)'], extra_defs=['VF_LEFT=1'], props={'assert': 'C01'})
q('tryn_cap2', 2, ['PUSHN(0,2);SIGNAL(0)', 'AWAIT(0);TRYPOPN(2)'], props={'assert': 'C01'})
# single-producer try_push_n whose batch wraps the ring while a consumer is still inside its pop on the tail slot and a later
# ticket (head slot, next epoch) is already done: the short tail segment must end the batch
q('trypushn_nc_wrap_short_tail', 2, ['PUSH(0);PUSH(1);PUSH(2);TRYPUSHN_NC(3,2);SIGNAL(0)', 'POP();POPCB_AWAIT(0)', 'POP()'], nr=5, extra_defs=['VF_LEFT=1'], props={'assert': 'C01'})
q('spin_wait_futexless', 1, ['PUSH(0);PUSH(1)', 'POP();POP()'], extra_defs=['VF_FW=false', 'VF_FK=false'], props={'assert': 'C01'})
q('nonconc_producer', 2, ['PUSH(0);PUSH(1)', 'POP()', 'POP()'], extra_defs=['VF_C=true'], tiers=('thorough',))

# ----------------------------------------------------------------------------------------------- C09: epoch
M3 = {'quick': ['sc', 'tso', 'arm'], 'thorough': ['sc', 'tso', 'arm']}
def ep(name, ts, nacc=1, extra=(), **kw):
    S('ep_' + name, 'epoch/ep.cpp', {'assert': 'C09'}, defs=['VF_NACC=%d' % nacc] + ['VF_T%d=%s' % (i, t) for i, t in enumerate(ts)] + list(extra), models=kw.pop('models', M3), **kw)
ep('reader_writer', ['READER(0)', 'WRITER()'])
ep('nested', ['READER_NESTED(0)', 'WRITER()'])
ep('nested_hold', ['READER_NESTED_HOLD(0)', 'WRITER()'])
ep('two_readers', ['READER(0)', 'READER(1)', 'WRITER()'], nacc=2)
ep('second_slot', ['READER(1)', 'WRITER()'], nacc=2)
ep('handoff', ['acc[0].lock();SIGNAL(0)', 'AWAIT(0);USE();acc[0].unlock()', 'WRITER()'])
ep('released_not_blocking', ['READER(0);acc[0].release();SIGNAL(0)', 'AWAIT(0);WRITER_MUST_RECLAIM()'])
ep('unlocked_not_blocking', ['READER_NESTED(0);SIGNAL(0)', 'AWAIT(0);WRITER_MUST_RECLAIM()'])
ep('reader_twice', ['READER(0);READER(0)', 'WRITER()'])
ep('create_during_scan', ['auto a = e->create_accessor(); a.lock(); USE(); a.unlock()', 'WRITER()'], nacc=1, tiers=('thorough',))

# ----------------------------------------------------------------------------------------------- C08: future
FUP = {'assert': 'C08', 'stuck': 'C08'}
def fu(name, ts, final='', extra=(), **kw):
    S('fu_' + name, 'future/fu.cpp', kw.pop('props', FUP), defs=['VF_T%d=%s' % (i, t) for i, t in enumerate(ts)] + (['VF_FINAL=' + final] if final else []) + list(extra), **kw)
CB1 = 'vf_check(calls[1]==1 && seen[1]==42, 1)'
fu('set_cb_get', ['SET(42)', 'ONFIN(1)', 'GET(2)'], final=CB1 + ';vf_check(got[2]==42, 6)')
fu('two_callbacks', ['SET(42)', 'ONFIN(1)', 'ONFIN(2)'], final=CB1 + ';vf_check(calls[2]==1 && seen[2]==42, 1)')
fu('cb_before', ['ONFIN(0);SET(42)', 'ONFIN(1)'], final=CB1 + ';vf_check(calls[0]==1 && seen[0]==42, 1)')
fu('cb_after', ['SET(42);ONFIN(3)', 'ONFIN(1)'], final=CB1 + ';vf_check(calls[3]==1 && seen[3]==42, 1)')
fu('two_getters', ['SET(42)', 'GET(1)', 'GET(2)'], final='vf_check(got[1]==42 && got[2]==42, 6)')
fu('ready_get', ['SET(42)', 'READY_THEN_GET(1)'], props={'assert': 'C08'})
# timeouts: every negative value, 0, 1..2^16 ns and the 2^16 largest int64 values; clock readings < 2^16 ns (stated bound:
# 64-bit comparator chains over the full range do not finish within the solver cap)
FIN_READY = 'vf_check(c->wait_for(std::chrono::nanoseconds(0)), 7); { P2& x = c->get(); vf_check(x.a == 42, 7); }'     # once set: every later wait_for is true, get does not block
TO = 'VF_TO_ASSUME=vf_assume(to < 65536 || to > INT64_MAX - 65536)'
TOPT = {'clock': 'ns', 'maxtns': '65536', 'clk': 'bv'}
fu('wait_for', ['SET(42)', 'WAITFOR(1)'], props={'assert': 'C08'}, opts=TOPT, extra=[TO])
fu('wait_for_two', ['SET(42)', 'WAITFOR(1)', 'WAITFOR(2)'], final=FIN_READY, props={'assert': 'C08'}, opts=TOPT, extra=[TO], tiers=('thorough',))
fu('timeout0_two', ['SET(42); WAITFOR0(0); vf_check(ret[0] == 1, 7)', 'WAITFOR0(1)', 'WAITFOR0(2)'], props={'assert': 'C08'}, opts=TOPT, models=['sc'], tiers=('thorough',))
fu('wait_for_unset', ['WAITFOR(0)'], props={'assert': 'C08'}, opts=dict(TOPT, spurious='1'), extra=[TO])
S('fu_latch', 'future/latch.cpp', FUP)
S('fu_latch_seq_counts', 'future/latch_seq.cpp', {'assert': 'C08'}, models=['sc'], bound=8)

# ----------------------------------------------------------------------------------------------- C14: id allocator / deposit box
def ida(name, ts, extra=(), **kw):
    S('id_' + name, 'idalloc/ida.cpp', {'assert': 'C14'}, defs=['VF_T%d=%s' % (i, t) for i, t in enumerate(ts)] + list(extra), **kw)
ida('aba', ['ALLOC(0);ALLOC(1)', 'ALLOC_ALLOC_FREE_FIRST(0)'])
ida('aba_reuse', ['ALLOC(0);SIGNAL(0)', 'ALLOC_ALLOC_FREE_FIRST(0);SIGNAL(1)', 'REUSE_CHECK()'])
ida('alloc_free_race', ['ALLOC(0);ALLOC_THEN_FREE();SIGNAL(0)', 'ALLOC_THEN_FREE();ALLOC(0);SIGNAL(1)', 'REUSE_CHECK()'])
ida('mint_race', ['ALLOC(0);ALLOC(1)', 'ALLOC(0);ALLOC(1)'], extra=['VF_PREFREE=1'])
ida('three', ['ALLOC(0)', 'ALLOC_ALLOC_FREE_FIRST(0)', 'ALLOC_THEN_FREE()'], tiers=('thorough',))
S('id_history', 'idalloc/hist.cpp', {'assert': 'C14'}, defs=['VF_K=4'], models=['sc'], bound={'quick': 8, 'thorough': 12})
# per-thread ids across thread exit / creation (sequential thread generations, two id spaces)
S('tid_generations', 'idalloc/tid_gen.cpp', {'assert': 'C14'}, models=['sc'], bound=12)
def box(name, ts, final, extra=(), **kw):
    S('box_' + name, 'idalloc/box.cpp', {'assert': 'C14'}, defs=['VF_T%d=%s' % (i, t) for i, t in enumerate(ts)] + ['VF_FINAL=' + final] + list(extra), **kw)
box('two_takers', ['TAKE(id0)', 'TAKE(id0)'], 'vf_check(won[0]+won[1]==1, 1); vf_check(val[0]+val[1]==42, 1)')
box('three_takers', ['TAKE(id0)', 'TAKE_RELEASED(id0)', 'TAKE(id0)'], 'vf_check(won[0]+won[1]+won[2]==1, 1); vf_check(val[0]+val[1]+val[2]==42, 1)')
box('stale_never_matches', ['TAKE(stale)', 'TAKE(id0)'], 'vf_check(won[0]==0, 3); vf_check(won[1]==1 && val[1]==42, 1)')
box('stale_vs_recycle', ['TAKE(stale)', 'TAKE(id0);EMPLACE_NEW(43);TAKE(idnew)', 'TAKE(stale)'], 'vf_check(won[0]==0 && won[2]==0, 3)')

APX = ['babylon/logging/async_file_appender.cpp', 'babylon/logging/file_object.cpp', 'babylon/logging/log_entry.cpp', 'babylon/reusable/page_allocator.cpp']
def apx(name, init, ts, final, qcap_=1, **kw):
    kw.setdefault('opts', {'loop:keep_writing': '4'}); kw.setdefault('tiers', ('thorough',)); kw.setdefault('timeout', 5400)
    S('ap_' + name, 'logging/ap.cpp', {'assert': 'C20'}, defs=['VF_QCAP=%d' % qcap_, 'VF_INIT=' + init] + ['VF_T%d=%s' % (i, t) for i, t in enumerate(ts)] + ['VF_FINAL=' + final], extra=APX, **kw)
S('ap_seq_sizes', 'logging/ap_seq.cpp', {'assert': 'C20'}, extra=APX, models=['sc'], bound=12)
S('ap_writev_iov_max', 'logging/ap_writev.cpp', {'assert': 'C20'}, extra=APX, models=['sc'], bound=1100)
# the queue hand-over of write() alone: two logging threads, nobody drains; both entries must be queued, intact
apx('two_writes_enqueue', 'ent[0] = make("ab", 2); ent[1] = make("cd", 2); writer_done = 1', ['WRITE(0)', 'WRITE(1)'],
    '{ vf_check(ap->_queue.size()==2, 3); uint64_t m = 0; for (int i = 0; i < 2; ++i) { auto& it = ap->_queue._slots.value(i); vf_check(it.file == &fo && it.entry.size == 2, 3); m |= (it.entry.pages[0] == ent[0].pages[0] ? 1 : 0) | (it.entry.pages[0] == ent[1].pages[0] ? 2 : 0); } vf_check(m == 3, 3); } nfree = nalloc',
    tiers=('quick', 'thorough'), timeout=None, opts={}, qcap_=2)
apx('one_writer', 'ent[0] = make("ab", 2); ent[1] = make("cd", 2)', ['WRITE(0);WRITE(1);CLOSE_MARK()', 'WRITER()'],
    'vf_check(nfile==4 && filebuf[0]==97 && filebuf[1]==98 && filebuf[2]==99 && filebuf[3]==100, 1)')
apx('two_writers', 'ent[0] = make("ab", 2); ent[1] = make("cd", 2)', ['WRITE(0);SIGNAL(0)', 'WRITE(1);SIGNAL(1)', 'AWAIT(0);AWAIT(1);CLOSE_MARK()', 'WRITER()'],
    'vf_check(nfile==4 && ((filebuf[0]==97 && filebuf[1]==98 && filebuf[2]==99 && filebuf[3]==100) || (filebuf[0]==99 && filebuf[1]==100 && filebuf[2]==97 && filebuf[3]==98)), 1)')
apx('empty_entry', 'ent[0] = make("ab", 2); ent[1] = make("", 0); ent[2] = make("cd", 2)', ['WRITE(0);WRITE(1);WRITE(2);CLOSE_MARK()', 'WRITER()'],
    'vf_check(nfile==4 && filebuf[0]==97 && filebuf[1]==98 && filebuf[2]==99 && filebuf[3]==100, 2)')

# ----------------------------------------------------------------------------------------------- C04: concurrent vector
def vec(name, ts, final, extra=(), **kw):
    S('vec_' + name, 'vector/vec.cpp', {'assert': 'C04'}, defs=['VF_T%d=%s' % (i, t) for i, t in enumerate(ts)] + ['VF_FINAL=' + final] + list(extra), **kw)
vec('same_index', ['ENSURE(0,0)', 'ENSURE(0,0)'], 'vf_check(addr[0][0]==addr[1][0], 1)', extra=['VF_DESTROY=1'])
vec('overlap_grow', ['ENSURE(0,0);ENSURE(1,1)', 'ENSURE(1,1);ENSURE(0,0)'], 'vf_check(addr[0][0]==addr[1][0] && addr[0][1]==addr[1][1] && addr[0][0]!=addr[0][1], 1)', extra=['VF_DESTROY=1'], tiers=('thorough',))
vec('stable_under_growth', ['ENSURE(1,1)', 'SNAP_READ(0,0);ENSURE(0,1)'], 'vf_check((addr[1][0]==nullptr || addr[1][0]==addr0) && addr[1][1]==addr0, 1)', extra=['VF_INIT=addr0 = &v->ensure(0)', 'VF_DESTROY=1'])
vec('gc_cooling', ['WATCH_GROW(1)', 'GC()'], '(void)0', extra=['VF_INIT=addr0 = &v->ensure(0)'], opts={'clock': 'sec'})
vec('bs2_same_block', ['ENSURE(0,0);ENSURE(3,1)', 'ENSURE(1,0);ENSURE(2,1)'], 'vf_check(addr[0][0]+1==addr[1][0] && addr[1][1]+1==addr[0][1], 1)', extra=['VF_BS=2', 'VF_DESTROY=1'], tiers=('thorough',))

# ----------------------------------------------------------------------------------------------- C15: transient topic
TPP = {'assert': 'C15', 'stuck': 'C15'}
def tp(name, ts, final, extra=(), **kw):
    S('tp_' + name, 'topic/tp.cpp', kw.pop('props', TPP), defs=['VF_T%d=%s' % (i, t) for i, t in enumerate(ts)] + ['VF_FINAL=' + final] + list(extra), **kw)
SEQ12 = lambda c: 'vf_check(ngot[%d]==2 && got[%d][0]==11 && got[%d][1]==22 && ended[%d]==1, 1)' % (c, c, c, c)
tp('pub_close_consume', ['PUB(11);PUB(22);CLOSE()', 'auto c = t->subscribe();CONS1();CONS1();CONS1()'], SEQ12(1))
tp('two_consumers', ['PUB(11);PUB(22);CLOSE()', 'auto c = t->subscribe();CONS1();CONS1();CONS1()', 'auto c = t->subscribe();CONS2();CONS1()'], SEQ12(1) + ';' + SEQ12(2), tiers=('thorough',))
tp('two_consumers_one_item', ['PUB(11);CLOSE()', 'auto c = t->subscribe();CONS1();CONS1()', 'auto c = t->subscribe();CONS2()'], 'vf_check(ngot[1]==1 && got[1][0]==11 && ended[1]==1 && ngot[2]==1 && got[2][0]==11 && ended[2]==1, 1)', tiers=('thorough',))
tp('batch_pub', ['PUBN2(11,22);CLOSE()', 'auto c = t->subscribe();CONS2();CONS1()'], SEQ12(1))
tp('after_clear', ['PUB(11);PUB(22);CLOSE()', 'auto c = t->subscribe();CONS1();CONS1();CONS1()'], SEQ12(1), extra=['VF_INIT=t->publish(mk(5)); t->close(); t->clear()'])
tp('batch_across_block_boundary', ['PUB(11);PUB(22);CLOSE()', 'auto c = t->subscribe(); c._next_consume_index = 125; CONS4(); CONS1()'], 'vf_check(ngot[1]==2 && got[1][0]==11 && got[1][1]==22 && ended[1]==2, 1)',
   extra=['VF_INIT=t->_slots.reserve(260); t->_next_event_index.store(125)'], models=['sc'])
tp('two_publishers', ['PUB(11)', 'PUB(22)', 'AWAIT(0);AWAIT(1);CLOSE()' , 'auto c = t->subscribe();CONS1();CONS1();CONS1()'],
   'vf_check(ngot[3]==2 && got[3][0]+got[3][1]==33 && got[3][0]!=got[3][1] && ended[3]==1, 1)', extra=['VF_T0=PUB(11);SIGNAL(0)', 'VF_T1=PUB(22);SIGNAL(1)'])

# ----------------------------------------------------------------------------------------------- C16: execution queue
def eq(name, ts, final, mode=0, cap=2, extra=(), **kw):
    S('eq_' + name, 'execq/eq.cpp', {'assert': 'C16'}, defs=['VF_MODE=%d' % mode, 'VF_CAP=%d' % cap] + ['VF_T%d=%s' % (i, t) for i, t in enumerate(ts)] + ['VF_FINAL=' + final] + list(extra),
      extra=['babylon/basic_executor.cpp'], **kw)
ALL3 = 'vf_check(nconsumed==3, 1); { uint64_t m = 0; for (int i = 0; i < 3; ++i) m |= 1ull << (consumed[i] & 7); vf_check(m == 0xe, 3); }'
ORD12 = '{ int p1 = -1, p2 = -1; for (int i = 0; i < 3; ++i) { if (consumed[i] == 1) p1 = i; if (consumed[i] == 2) p2 = i; } vf_check(p1 < p2, 4); }'
ALL2 = 'vf_check(nconsumed==2 && consumed[0]+consumed[1]==3 && consumed[0]!=consumed[1], 1);'
TH = ('thorough',)
DEV = ('dev',)
eq('inline_one', ['EXEC(0,1)'], 'vf_check(nconsumed==1 && consumed[0]==1, 1)')
eq('inline_1x1', ['EXEC(0,1)', 'EXEC(0,2)'], ALL2)
eq('parked_1x1', ['EXEC(0,1)', 'RUN_PARKED(0)', 'EXEC(0,2)'], ALL2, mode=1)
eq('refused_1x1', ['EXEC(0,1)', 'EXEC(0,2)'], 'if (ret[0][0]==0 || ret[1][0]==0) {' + ALL2 + '}', mode=2, extra=['VF_REFUSE=2'], tiers=TH, timeout=7200)
# two refused launches racing a second producer, then (after both) an accepted signal must drain everything pending
S('eq_seq_refusals', 'execq/eq_seq.cpp', {'assert': 'C16'}, extra=['babylon/basic_executor.cpp'], models=['sc'], bound=8)
eq('refused_twice_then_recover', ['EXEC(0,1);SIGNAL(0)', 'SIGNAL_ONLY(0);SIGNAL(1)', 'AWAIT(0);AWAIT(1);EXEC(0,2)'], 'if (ret[2][0]==0) {' + ALL2 + '}', mode=3, cap=2, extra=['VF_REFUSE=2'], tiers=TH, timeout=7200, qcap=3000)
eq('refused_seq', ['EXEC(0,1);EXEC(1,2)'], 'if (ret[0][1]==0) {' + ALL2 + ' vf_check(consumed[0]==1, 4); }', mode=2, tiers=TH, timeout=3600)
eq('join_1', ['EXEC(0,1);SIGNAL(0)', 'RUN_PARKED(0)', 'AWAIT(0);JOIN_THEN_CHECK(1)'], 'vf_check(nconsumed==1, 1)', mode=1, tiers=TH, timeout=3600)
eq('inline_two_seq', ['EXEC(0,1);EXEC(1,2)'], ALL2 + 'vf_check(consumed[0]==1, 4);', tiers=TH)
eq('inline_two_producers', ['EXEC(0,1);EXEC(1,2)', 'EXEC(0,3)'], ALL3 + ORD12, tiers=TH, timeout=3600)
eq('parked_consumer', ['EXEC(0,1);EXEC(1,2)', 'RUN_PARKED(0)', 'EXEC(0,3)'], ALL3 + ORD12, mode=1, tiers=TH, timeout=3600)
eq('refused_race', ['EXEC(0,1);EXEC(1,2)', 'EXEC(0,3)'], 'if ((ret[0][1]==0 && ret[1][0]==0)) {' + ALL3 + ORD12 + '}', mode=2, tiers=TH, timeout=3600)

# ----------------------------------------------------------------------------------------------- C17: object pool
def op(name, t0, t1, cap, inject, auto=False, expect_null=0, **kw):
    S('op_' + name, 'pagealloc/op.cpp', kw.pop('props', {'assert': 'C17', 'stuck': 'C17'}), defs=['VF_CAP=%d' % cap, 'VF_INJECT=%d' % inject, 'VF_T0=' + t0, 'VF_T1=' + t1, 'VF_EXPECT_NULL=%d' % expect_null] + (['VF_AUTO=1'] if auto else []), **kw)
op('strict_one_object_two_users', 'POP_USE_RELEASE(0)', 'POP_USE_RELEASE(1)', 2, 1)
op('auto_overflow_destroyed', 'POP_USE_RELEASE(0)', 'POP_USE_RELEASE(1)', 1, 0, auto=True, tiers=DEV)
op('auto_prefilled', 'POP_USE_RELEASE(0)', 'POP_USE_RELEASE(1)', 1, 1, auto=True, models=['sc'])
op('strict_try_pop', 'TRYPOP_USE_RELEASE(0)', 'TRYPOP_USE_RELEASE(1)', 2, 1, expect_null=1, props={'assert': 'C17'})

# ----------------------------------------------------------------------------------------------- C18: hash set histories (sequential)
HSX = ['babylon/concurrent/transient_hash_table.cpp']
def hs(name, n, ctor=None, exact=False, **kw):
    S('hs_' + name, 'hashset/hs_grow.cpp', {'assert': 'C18'}, extra=HSX, models=['sc'], bound=100, defs=['VF_N=%d' % n] + (['VF_CTOR=' + ctor] if ctor else []) + (['VF_EXACT=1'] if exact else []), **kw)
hs('default_le6', 6)
hs('default_le8', 8, tiers=TH)
hs('sized16_le9', 9, 'Set(16)', tiers=TH)
hs('default_exact9', 9, exact=True, tiers=TH)
hs('sized16_le6', 6, 'Set(16)')
hs('default_exact34', 34, exact=True)
hs('sized16_exact34', 34, 'Set(16)', exact=True)
hs('sized4_le6', 6, 'Set(4)')
def hsh(name, n1, n2, ctor=None, op=None, **kw):
    S('hs_hist_' + name, 'hashset/hs_hist.cpp', {'assert': 'C18'}, extra=HSX, models=['sc'], bound=100, defs=['VF_N1=%d' % n1, 'VF_N2=%d' % n2] + (['VF_CTOR=' + ctor] if ctor else []) + (['VF_OP=%d' % op] if op is not None else []), **kw)
for _op, _nm in enumerate(['clear', 'reserve', 'rehash', 'move_ctor', 'move_assign', 'swap']):
    hsh('default_n20_' + _nm, 20, 1, op=_op, tiers=(DEV if _nm in ('reserve', 'rehash') else ('quick', 'thorough')))
    hsh('sized16_n5_' + _nm, 5, 1, 'Set(16)', op=_op, tiers=(TH if _nm in ('reserve', 'rehash') else ('quick', 'thorough')))
hs('default_le10', 10, tiers=DEV)
S('hs_dbg_9_10', 'hashset/hs_grow.cpp', {'assert': 'C18'}, extra=HSX, models=['sc'], bound=100, defs=['VF_N=10','VF_NOFIND=1','VF_FINE=1'], tiers=DEV)
S('hs_default_le6_copy', 'hashset/hs_grow.cpp', {'assert': 'C18'}, extra=HSX, models=['sc'], bound=100, defs=['VF_N=6', 'VF_COPY=1'], tiers=DEV)
# every check looks at a COPY of a set that grew past its head table
S('hs_default_exact20_copy', 'hashset/hs_grow.cpp', {'assert': 'C18'}, extra=HSX, models=['sc'], bound=100, defs=['VF_N=20', 'VF_EXACT=1', 'VF_COPY=1'])
S('hs_sized16_exact5_copy', 'hashset/hs_grow.cpp', {'assert': 'C18'}, extra=HSX, models=['sc'], bound=100, defs=['VF_N=5', 'VF_EXACT=1', 'VF_COPY=1', 'VF_CTOR=Set(16)'])
S('hs_probe_two_full_groups', 'hashset/hs_probe.cpp', {'assert': 'C18'}, extra=HSX, models=['sc'], bound=100, defs=['VF_FULL_GROUPS=2'])
S('hs_probe_three_full_groups', 'hashset/hs_probe.cpp', {'assert': 'C18'}, extra=HSX, models=['sc'], bound=100, defs=['VF_FULL_GROUPS=3'])

# ----------------------------------------------------------------------------------------------- C10: garbage collector
def gcs(name, ts, final, qcap=2, **kw):
    kw.setdefault('opts', {'loop:keep_reclaim': '3'}); kw.setdefault('tiers', TH); kw.setdefault('timeout', 7200)
    S('gc_' + name, 'gc/gc.cpp', {'assert': 'C10'}, defs=['VF_QCAP=%d' % qcap] + ['VF_T%d=%s' % (i, t) for i, t in enumerate(ts)] + ['VF_FINAL=' + final], **kw)
S('gc_seq_stop', 'gc/gc_seq.cpp', {'assert': 'C10'}, models=['sc'], bound=8)
S('gc_seq_retire_during_intake_wrapped', 'gc/gc_seq2.cpp', {'assert': 'C10'}, models=['sc'], bound=8, defs=['VF_PREADVANCE=3'])
# explicit older epochs (retire(r, epoch)) mixed with ordinary retires: one intake batch with non-ascending epochs
S('gc_seq_batch_epoch_order', 'gc/gc_seq3.cpp', {'assert': 'C10'}, models=['sc'], bound=8)
S('gc_seq_retire_during_intake', 'gc/gc_seq2.cpp', {'assert': 'C10'}, models=['sc'], bound=8, defs=['VF_PREADVANCE=0'])
# stop() issued while a region opened before the retirement is still open
gcs('stop_with_open_region', ['REGION_OPEN();SIGNAL(0);REGION_CLOSE()', 'AWAIT(0);RETIRE(0);STOP_MARK();JOIN();vf_check(invoked[0]==1, 1)', 'COLLECTOR()'],
    'vf_check(invoked[0] <= 1, 2); if (invoked[0]) vf_check(open_at_invoke[0] == 0, 3)')
gcs('retire_then_stop', ['RETIRE(0);RETIRE(1);STOP_MARK();JOIN();vf_check(invoked[0]==1 && invoked[1]==1, 1)', 'COLLECTOR()'], 'vf_check(invoked[0]==1 && invoked[1]==1, 2)')
gcs('never_early', ['REGION_OPEN();SIGNAL(0);AWAIT(1);REGION_CLOSE()', 'AWAIT(0);RETIRE(0);SIGNAL(1);STOP_MARK()', 'COLLECTOR()'],
    'vf_check(invoked[0] <= 1, 2); if (invoked[0]) vf_check(open_at_invoke[0] == 0, 3)')

# ----------------------------------------------------------------------------------------------- C13: coroutine futex
def fx(name, init, ts, final, **kw):
    S('fx_' + name, 'coro/fx.cpp', {'assert': 'C13'}, std=20, defs=['VF_INIT=' + init] + ['VF_T%d=%s' % (i, t) for i, t in enumerate(ts)] + ['VF_FINAL=' + final],
      extra=['babylon/coroutine/futex.cpp', 'babylon/basic_executor.cpp'], **kw)
fx('wake_one_basic', 'make_waiter(0,0)', ['WAKE_ONE()'], 'vf_check(ret[0]==1 && resumed[0]==1 && on_exec==1, 1)')
fx('mismatch_no_suspend', 'fx->value() = 5; make_waiter(0,0); make_waiter(1,5)', ['WAKE_ALL()'], 'vf_check(suspended[0]==0 && suspended[1]==1 && ret[0]==1 && resumed[0]==0 && resumed[1]==1, 4)')
fx('wake_one_vs_cancel', 'make_waiter(0,0); make_waiter(1,0)', ['CANCEL(1)', 'WAKE_ONE()'],
   'vf_check(resumed[1]==1 && resumed[0]<=1, 2); vf_check(ret[1]==1 && resumed[0]+resumed[1]==2 || (ret[0]==0), 3)')
fx('wake_all_vs_cancel', 'make_waiter(0,0); make_waiter(1,0)', ['CANCEL(0)', 'WAKE_ALL()'], 'vf_check(resumed[0]==1 && resumed[1]==1, 2); vf_check(ret[0]+ret[1]==2, 2)')
# after every waiter was resumed (woken or cancelled) the wait list must be empty again: a stale link would hand a recycled
# wait slot (possibly a waiter of another futex) to the next wake_one / wake_all
FXEMPTY = '; vf_check(fx->_awaiter_head.next == nullptr, 7)'
fx('wake_all_vs_cancel_newest_list_empty', 'make_waiter(0,0); make_waiter(1,0)', ['CANCEL(1)', 'WAKE_ALL()'], 'vf_check(resumed[0]==1 && resumed[1]==1, 2)' + FXEMPTY)
fx('wake_all_vs_new_waiter', 'make_waiter(0,0); make_waiter(1,0)', ['WAKE_ALL()', 'NEW_WAITER(2)'], 'vf_check(resumed[0]==1 && resumed[1]==1 && resumed[2]<=1, 5)')
fx('value_change_vs_new_waiter', '(void)0', ['NEW_WAITER(0)', 'fx->atomic_value().store(1, std::memory_order_release);WAKE_ALL()'], 'vf_check(suspended[0]==0 || resumed[0]==1, 6); vf_check(resumed[0]<=1, 2)')
fx('value_change_vs_second_waiter', 'make_waiter(1,0)', ['NEW_WAITER(0)', 'fx->atomic_value().store(1, std::memory_order_release);WAKE_ONE();WAKE_ONE()'], 'vf_check(resumed[1]==1 && (suspended[0]==0 || resumed[0]==1), 6)')
fx('two_wake_one', 'make_waiter(0,0); make_waiter(1,0)', ['WAKE_ONE()', 'WAKE_ONE()'], 'vf_check(resumed[0]==1 && resumed[1]==1 && ret[0]==1 && ret[1]==1, 2)')

# real C++20 coroutines (clang's lowering at -O1): Task co_awaiting Cancellable<Task> / Future / Task on a harness executor
CXX_ = ['babylon/basic_executor.cpp']
for _k, _nm in ((0, 'cancellable'), (1, 'future'), (2, 'task')):
    S('cx_seq_' + _nm, 'coro/cx_seq.cpp', {'assert': 'C13'}, std=20, defs=['VF_KIND=%d' % _k], extra=CXX_, models=['sc'], bound=8)
def bcs(name, ts, final, **kw):
    S('bc_' + name, 'coro/bc.cpp', {'assert': 'C13'}, std=20, defs=['VF_T%d=%s' % (i, t) for i, t in enumerate(ts)] + ['VF_FINAL=' + final], extra=CXX_, **kw)
BCB = '; vf_check(resumed[1] == 0 && !bc[1]->canceled() && !proxy[1].awaiter(), 6)'     # (operations through the box inside vf_final are avoided: the epilogue's read cache does not follow stores through enumerated pointers)
bcs('cancel_vs_new_wait', ['CANCEL(0)', 'START(1)'], 'vf_check(ret[0] == 1 && resumed[0] == 1 && bc[0]->canceled(), 4)' + BCB)
bcs('finish_vs_new_wait', ['FINISH(0)', 'START(1)'], 'vf_check(ret[0] == 1 && resumed[0] == 0 && !bc[0]->canceled() && proxy[0].awaiter().address() == (void*)&frames[0], 4)' + BCB)
# wait B is itself cancelled by its own thread right after it started: both awaiters resumed exactly once, each by its own trigger
bcs('cancel_vs_new_wait_cancelled', ['CANCEL(0)', 'START(1);CANCEL(1)'], 'vf_check(ret[0] == 1 && ret[1] == 1 && resumed[0] == 1 && resumed[1] == 1 && bc[0]->canceled() && bc[1]->canceled(), 4)')
bcs('cancel_vs_finish', ['CANCEL(0)', 'FINISH(0)'], 'vf_check((ret[0] == 1) != (ret[1] == 1), 2); vf_check(ret[0] == 1 ? (resumed[0] == 1 && bc[0]->canceled() && !proxy[0].awaiter()) : (resumed[0] == 0 && !bc[0]->canceled() && proxy[0].awaiter().address() == (void*)&frames[0]), 3)')
bcs('two_cancels', ['CANCEL(0)', 'CANCEL(0)'], 'vf_check((ret[0] == 1) != (ret[1] == 1) && resumed[0] == 1, 2)')
CX2FIN = 'vf_check(resumed[1] == 0 && finished[1] == 0, 6); SET(1, 43); vf_check(resumed[1] == 1 && has_value[1] == 1 && value[1] == 43 && in_exec_at_resume[1] == 1, 7)'
S('cx2_cancel_vs_new_wait', 'coro/cx2.cpp', {'assert': 'C13'}, std=20, defs=['VF_T0=CANCEL(0)', 'VF_T1=START(1)', 'VF_FINAL=vf_check(cancel_ret[0] == 1 && resumed[0] == 1 && has_value[0] == 0 && in_exec_at_resume[0] == 1, 4); ' + CX2FIN], extra=CXX_, tiers=DEV, bound=2)
S('cx2_finish_vs_new_wait', 'coro/cx2.cpp', {'assert': 'C13'}, std=20, defs=['VF_T0=SET(0, 42)', 'VF_T1=START(1)', 'VF_FINAL=vf_check(resumed[0] == 1 && has_value[0] == 1 && value[0] == 42 && in_exec_at_resume[0] == 1, 4); ' + CX2FIN], extra=CXX_, tiers=DEV, bound=2)
CXFIN = 'vf_check(resumed == 1 && finished == 1 && in_exec_at_resume == 1, 4); vf_check((cancel_ret == 1) == (has_value == 0), 3); if (has_value) vf_check(value == 42, 3)'
S('cx_cancel_vs_set', 'coro/cx.cpp', {'assert': 'C13'}, std=20, defs=['VF_KIND=0', 'VF_T0=SET(42)', 'VF_T1=CANCEL()', 'VF_FINAL=' + CXFIN], extra=CXX_, tiers=DEV)
S('cx_future_set', 'coro/cx.cpp', {'assert': 'C13'}, std=20, defs=['VF_KIND=1', 'VF_T0=SET(42)', 'VF_T1=vf_yield()', 'VF_FINAL=vf_check(resumed == 1 && finished == 1 && value == 42 && in_exec_at_resume == 1, 4)'], extra=CXX_, tiers=DEV)

# ----------------------------------------------------------------------------------------------- C17: page allocators / object pool
PAX = ['babylon/reusable/page_allocator.cpp', 'babylon/concurrent/counter.cpp']
def cpa(name, ts, cap=1, final='(void)0', init=None, **kw):
    S('pa_' + name, 'pagealloc/cpa.cpp', {'assert': 'C17'}, defs=['VF_CAP=%d' % cap] + ['VF_T%d=%s' % (i, t) for i, t in enumerate(ts)] + ['VF_FINAL=' + final] + (['VF_INIT=' + init] if init else []), extra=PAX, **kw)
cpa('alloc_free_x2', ['ALLOC1(0);FREE1(0)', 'ALLOC1(0);FREE1(0)'])
cpa('cache_full_race', ['ALLOC1(0);ALLOC1(1);FREE1(0);FREE1(1)', 'ALLOC1(0);FREE1(0)'], tiers=TH, qcap=1500, timeout=7200)
cpa('batch', ['ALLOC2(0);FREE2(0)', 'ALLOC1(0);FREE1(0)'], cap=2, tiers=TH, qcap=1500, timeout=7200)
cpa('keep_one', ['ALLOC1(0);ALLOC1(1);FREE1(0)', 'ALLOC1(0);FREE1(0)'], cap=2, tiers=TH, qcap=1500, timeout=7200)
S('pa_seq_batch_wraps_ring', 'pagealloc/cpa_seq.cpp', {'assert': 'C17'}, extra=PAX, models=['sc'], bound=16)
S('pa_seq_partial_batch_small', 'pagealloc/cpa_seq.cpp', {'assert': 'C17'}, extra=PAX, models=['sc'], bound=16, defs=['VF_PARTIAL=1', 'VF_CMAX=2', 'VF_NMAX=3', 'VF_BMAX=1'])
S('pa_seq_partial_batch', 'pagealloc/cpa_seq.cpp', {'assert': 'C17'}, extra=PAX, models=['sc'], bound=16, defs=['VF_PARTIAL=1'], tiers=DEV)      # symbolic cache fill x batch size x refill: exploration > 7 min, not validated in time: dev tier
cpa('one_thread_cycle', ['ALLOC1(0);FREE1(0);ALLOC1(1);FREE1(1)'], cap=1)

# ----------------------------------------------------------------------------------------------- C06: monotonic resources (sequential)
MRX = ['babylon/reusable/memory_resource.cpp', 'babylon/reusable/page_allocator.cpp', 'babylon/concurrent/counter.cpp', 'babylon/new.cpp']
def mr(name, k, prefix, pbytes, maxbytes, maxalog, **kw):
    S('mr_' + name, 'memres/mr.cpp', {'assert': 'C06'}, defs=['VF_K=%d' % k, 'VF_PREFIX=%d' % prefix, 'VF_PREFIX_BYTES=%d' % pbytes, 'VF_MAXBYTES=%d' % maxbytes, 'VF_MAXALIGN_LOG2=%d' % maxalog],
      extra=MRX, models=['sc'], bound=12, **kw)
S('mr_shared_two_threads', 'memres/shared.cpp', {'assert': 'C06'}, extra=MRX, models=['sc'], bound=12)
mr('fresh_k2', 2, 0, 8, 300, 9)
mr('array_full_k2', 2, 15, 200, 300, 6)
mr('array_last_slot_k2', 2, 14, 200, 140, 4)

# ----------------------------------------------------------------------------------------------- C12: reusable vector (sequential)
RVX = ['babylon/reusable/memory_resource.cpp', 'babylon/reusable/page_allocator.cpp', 'babylon/concurrent/counter.cpp', 'babylon/new.cpp']
S('rv_ops_k2', 'reusable/rv.cpp', {'assert': 'C12'}, defs=['VF_K=2'], extra=RVX, models=['sc'], bound=10)
S('rv_ops_k3', 'reusable/rv.cpp', {'assert': 'C12'}, defs=['VF_K=3'], extra=RVX, models=['sc'], bound=10)
S('rv_ops_k3_prefilled', 'reusable/rv.cpp', {'assert': 'C12'}, defs=['VF_K=2', 'VF_INIT=v->push_back(7); v->push_back(8); v->push_back(9); ref[0]=7; ref[1]=8; ref[2]=9; rn=3'], extra=RVX, models=['sc'], bound=10)
# multi-element insert in front of a tail / range erase, then growth (push_back / reserve by resize) so that a wrong constructed-size mark shows
S('rv_ops_insert_n_prefilled', 'reusable/rv.cpp', {'assert': 'C12'}, defs=['VF_K=3', 'VF_OPMASK=0x1b3', 'VF_INIT=v->push_back(7); v->push_back(8); v->push_back(9); ref[0]=7; ref[1]=8; ref[2]=9; rn=3'], extra=RVX, models=['sc'], bound=10)
# nested reusable vector re-created from recorded allocation metadata (the manager's periodic re-creation), workload repeated
S('rv_meta_recreate_nested', 'reusable/rv_meta.cpp', {'assert': 'C12'}, extra=RVX, models=['sc'], bound=10)

# ----------------------------------------------------------------------------------------------- C19: counters / thread locals (sequential thread generations)
S('cnt_generations', 'counter/cnt.cpp', {'assert': 'C19'}, extra=['babylon/concurrent/counter.cpp'], models=['sc'], bound=12)
S('cnt_churn_inside_destructor', 'counter/churn_seq.cpp', {'assert': 'C19'}, extra=['babylon/concurrent/counter.cpp'], models=['sc'], bound=12)
# EnumerableThreadLocal instances moved while the thread's one-entry local() cache names one of them
S('tl_move_cached', 'counter/tl_move.cpp', {'assert': 'C19'}, extra=['babylon/concurrent/counter.cpp'], models=['sc'], bound=12)

# ----------------------------------------------------------------------------------------------- C07: executors
EXX = ['babylon/executor.cpp', 'babylon/basic_executor.cpp']
for _loc, _bal in ((2, 1), (2, 0), (0, 1)):
    S('tp_seq_stop_while_task_runs_local%d_balance%d' % (_loc, _bal), 'executor/tp_seq.cpp', {'assert': 'C07'}, defs=['VF_LOCAL=%d' % _loc, 'VF_BALANCE=%d' % _bal], extra=EXX, models=['sc'], bound=8)
def tpx(name, ts, final, local=0, **kw):
    kw.setdefault('opts', {'loop:keep_execute': '4'})
    S('tp_' + name, 'executor/tp.cpp', kw.pop('props', {'assert': 'C07', 'stuck': 'C07'}), defs=['VF_LOCAL=%d' % local] + ['VF_T%d=%s' % (i, t) for i, t in enumerate(ts)] + ['VF_FINAL=' + final] + list(kw.pop('defs_extra', ())), extra=EXX, **kw)
tpx('submit_then_stop', ['SUBMIT(0);STOP_MARKS(1);JOIN(0);vf_check(__atomic_load_n(&ran[0], __ATOMIC_RELAXED)==1, 1)', 'WORKER(0)'], 'vf_check(ran[0]==1 && in_pool[0]==1 && ret[0]==0, 2)')
tpx('two_tasks', ['SUBMIT(0);SUBMIT(1);STOP_MARKS(1);JOIN(0)', 'WORKER(0)'], 'vf_check(ran[0]==1 && ran[1]==1, 2)')
tpx('two_workers', ['SUBMIT(0);SUBMIT(1);STOP_MARKS(2);JOIN(0);JOIN(1)', 'WORKER(0)', 'WORKER(1)'], 'vf_check(ran[0]==1 && ran[1]==1, 2)', tiers=TH, timeout=7200)
# owner pop vs steal on a worker's local queue: worker 1 owns a local queue holding 1-2 tasks (pushed in set-up the way enqueue_task
# does from inside the pool), worker 2 steals; both find their STOP marker in the global queue afterwards
tpx('steal_vs_owner_1', ['vf_yield()', 'WORKER(0)', 'WORKER(1)'], 'vf_check(ran[0]==1 && in_pool[0]==1, 2)', local=2, tiers=DEV,
    defs_extra=['VF_STEAL=1', 'VF_INIT_EXTRA=GLOBAL_STOP();GLOBAL_STOP()', 'VF_PRO1=LOCAL_TASK(0)'], opts={'loop:keep_execute': '3', 'loop_reset': '1'})
tpx('steal_vs_owner_2', ['vf_yield()', 'WORKER(0)', 'WORKER(1)'], 'vf_check(ran[0]==1 && ran[1]==1 && in_pool[0]==1 && in_pool[1]==1, 2)', local=2, tiers=DEV,
    defs_extra=['VF_STEAL=1', 'VF_INIT_EXTRA=GLOBAL_STOP();GLOBAL_STOP()', 'VF_PRO1=LOCAL_TASK(0);LOCAL_TASK(1)'], opts={'loop:keep_execute': '4', 'loop_reset': '1'})
# cheaper formulation: the second consumer of worker 1's local queue is a harness thread doing the steal loop's pop
tpx('owner_pop_vs_steal_1', ['vf_yield()', 'WORKER(0)', 'STEAL_ONCE()'], 'vf_check(ran[0]==1, 2)', local=2, props={'assert': 'C07'},
    defs_extra=['VF_INIT_EXTRA=GLOBAL_STOP()', 'VF_PRO1=LOCAL_TASK(0)'])
tpx('owner_pop_vs_steal_2', ['vf_yield()', 'WORKER(0)', 'STEAL_ONCE()'], 'vf_check(ran[0]==1 && ran[1]==1, 2)', local=2, tiers=DEV, props={'assert': 'C07'},
    defs_extra=['VF_INIT_EXTRA=GLOBAL_STOP()', 'VF_PRO1=LOCAL_TASK(0);LOCAL_TASK(1)'], opts={'loop:keep_execute': '6', 'loop_reset': '1'})
tpx('spawn_child_local', ['SUBMIT_SPAWNING(0,1);STOP_MARKS(1);JOIN(0)', 'WORKER(0)'], 'vf_check(ran[0]==1 && ran[1]==1 && in_pool[1]==1, 2)', local=2, tiers=DEV)
# (a task that submits a child into the worker's local queue does not converge in the engine yet: formula contradictory, see DESIGN.md open items)

# ----------------------------------------------------------------------------------------------- C11: serialization (sequential)
SRX = ['babylon/serialization/traits.cpp']
def ser(name, defs, **kw):
    S('ser_' + name, 'serial/ser.cpp', {'assert': 'C11'}, defs=defs, extra=SRX, models=['sc'], bound=12, xsrc=['serial/pbmodel.cpp'], **kw)
ser('roundtrip_u64', ['VF_ROUNDTRIP=1', 'VF_SHAPE=0'])
ser('roundtrip_i32_bool', ['VF_ROUNDTRIP=1', 'VF_SHAPE=1'])
ser('roundtrip_nested', ['VF_ROUNDTRIP=1', 'VF_SHAPE=2'])
# the same bytes through a ZeroCopyInputStream in symbolic chunk sizes, with / without an enclosing limit
ser('roundtrip_nested_stream', ['VF_ROUNDTRIP=1', 'VF_SHAPE=2', 'VF_STREAM=3'])
ser('roundtrip_u64_stream', ['VF_ROUNDTRIP=1', 'VF_SHAPE=0', 'VF_STREAM=2'])
ser('unknown_field_u64', ['VF_UNKNOWN=1', 'VF_SHAPE=0'])
ser('unknown_field_nested', ['VF_UNKNOWN=1', 'VF_SHAPE=2'])
ser('hostile_len4_u64', ['VF_INLEN=4', 'VF_SHAPE=0'], opts={'oob': '1'})
ser('hostile_len4_nested', ['VF_INLEN=4', 'VF_SHAPE=2'], opts={'oob': '1'})
ser('hostile_len3_all', ['VF_INLEN=3', 'VF_SHAPE=3'], opts={'oob': '1'})
S('ser_nested_len_boundary_field1', 'serial/ser_big.cpp', {'assert': 'C11'}, defs=['VF_INNER_FIELD=1'], extra=SRX, models=['sc'], bound=12, xsrc=['serial/pbmodel.cpp'])
S('ser_nested_len_boundary_field20', 'serial/ser_big.cpp', {'assert': 'C11'}, defs=['VF_INNER_FIELD=20'], extra=SRX, models=['sc'], bound=12, xsrc=['serial/pbmodel.cpp'], tiers=TH)
ser('roundtrip_all', ['VF_ROUNDTRIP=1', 'VF_SHAPE=3'], tiers=TH, timeout=9000, qcap=3000)
ser('hostile_len6_all', ['VF_INLEN=6', 'VF_SHAPE=3'], opts={'oob': '1'}, tiers=TH, timeout=9000, qcap=3000)

# ----------------------------------------------------------------------------------------------- C05: anyflow
AFX = ['babylon/anyflow/builder.cpp', 'babylon/anyflow/graph.cpp', 'babylon/anyflow/vertex.cpp', 'babylon/anyflow/data.cpp', 'babylon/anyflow/dependency.cpp',
       'babylon/anyflow/closure.cpp', 'babylon/anyflow/executor.cpp', 'babylon/any.cpp', 'babylon/basic_executor.cpp', 'babylon/executor.cpp',
       'babylon/reusable/memory_resource.cpp', 'babylon/reusable/page_allocator.cpp', 'babylon/concurrent/counter.cpp', 'babylon/new.cpp']
def af(name, src, defs=(), **kw):
    kw.setdefault('models', ['sc']); kw.setdefault('bound', 8)
    o = dict(ctors='1', skipfn='log_unfinished_data'); o.update(kw.pop('opts', {}))
    S(name, 'anyflow/' + src, {'assert': 'C05'}, extra=AFX, xsrc=['anyflow/libmodel.cpp'], cflags=['-D_GLIBCXX_ASSERTIONS'], defs=list(defs), opts=o, **kw)
af('af_chain_inplace', 'af.cpp')
af('af_seq_diamond_cond_reset', 'af_seq.cpp', bound=16)
def afd(name, cond=1, unless=0, two=0, inject=1, **kw):
    af('af_dep_' + name, 'af_dep.cpp', defs=['VF_COND=%d' % cond, 'VF_UNLESS=%d' % unless, 'VF_TWO_DEPS=%d' % two, 'VF_INJECT_A=%d' % inject], **kw)
afd('on_true', cond=1)
afd('on_false', cond=0, inject=0)
afd('unless_true', cond=1, unless=1, inject=0)
afd('on_false_target_arrives', cond=0)
afd('on_true_two_deps', cond=1, two=1)
afd('on_false_two_deps', cond=0, two=1)


# ----------------------------------------------------------------------------------------------- thorough-tier bounds
# Loop bound 3 + the tso model was validated (every model finished well inside the time-out on this 16-core machine) for the
# scenarios below; every other default-bound scenario keeps loop bound 2 in the thorough tier (still adding the tso model),
# because bound 3 did not finish within 25 minutes per run when the thorough tier was validated.
B3_VALIDATED = set(['box_stale_never_matches', 'box_stale_vs_recycle', 'box_three_takers', 'box_two_takers', 'ep_create_during_scan', 'ep_handoff', 'ep_nested', 'ep_reader_twice', 'ep_reader_writer', 'ep_released_not_blocking', 'ep_second_slot', 'ep_two_readers', 'ep_unlocked_not_blocking', 'fu_cb_after', 'fu_cb_before', 'fu_latch', 'fu_ready_get', 'fu_set_cb_get', 'fu_two_callbacks', 'fu_two_getters', 'fu_wait_for', 'fu_wait_for_two', 'fu_wait_for_unset', 'fx_mismatch_no_suspend', 'fx_two_wake_one', 'fx_value_change_vs_new_waiter', 'fx_value_change_vs_second_waiter', 'fx_wake_all_vs_cancel', 'fx_wake_all_vs_new_waiter', 'fx_wake_one_basic', 'fx_wake_one_vs_cancel', 'ht_find', 'ht_same_key', 'id_aba', 'id_aba_reuse', 'id_alloc_free_race', 'id_mint_race', 'id_three', 'pa_alloc_free_x2', 'pa_one_thread_cycle', 'rl_basic', 'rl_wrap', 'tp_after_clear', 'tp_batch_pub', 'tp_pub_close_consume', 'tp_submit_then_stop', 'tp_two_tasks', 'tp_two_workers', 'vec_gc_cooling', 'vec_same_index', 'vec_stable_under_growth'])
for _s in ALL:
    if _s['bound'] == {'quick': 2, 'thorough': 3} and _s['name'] not in B3_VALIDATED: _s['bound'] = {'quick': 2, 'thorough': 2}

# Thorough-only scenarios that were built and explored but did NOT finish within 25 minutes per run (or were unsupported) when
# the thorough tier was validated on this machine; an inconclusive run would make the tier exit 2, so they are not registered.
# They stay defined above as documentation of what was tried (DESIGN.md 10.4).
NOT_FINISHING = set(['vec_overlap_grow', 'vec_bs2_same_block', 'pa_batch', 'pa_cache_full_race', 'pa_keep_one', 'tp_two_consumers', 'tp_two_consumers_one_item',
                     'eq_refused_1x1', 'eq_refused_twice_then_recover', 'eq_refused_seq', 'eq_inline_two_producers', 'eq_parked_consumer', 'eq_refused_race',
                     'ap_two_writers', 'ap_one_writer', 'ap_empty_entry', 'gc_stop_with_open_region', 'gc_retire_then_stop', 'gc_never_early',
                     'ser_roundtrip_all', 'ser_hostile_len6_all', 'q_nonconc_producer',
                     'ser_nested_len_boundary_field20'])     # field20: engine/protobuf-model execution not reproduced natively (2-byte tags inside a length limit): unconfirmed => not registered
for _s in ALL:
    if _s['name'] in NOT_FINISHING: _s['tiers'] = ('dev',)

# ----------------------------------------------------------------------------------------------- manifest texts
LEVEL_TEXT = {
 'C01': 'Real ConcurrentBoundedQueue<two-word payload, VS> IR; client programs of 2-4 threads mixing push/pop/try_/push_n/pop_n/callback variants on capacities 1-2; oracle = exactly-once multiset, per-thread FIFO, fully published payload, try_ success when sequenced after enough completed operations.',
 'C02': 'Same queue scenarios with balanced push/pop counts; STUCK query: can any thread sleep in futex_wait with no later wake (lost wake-up/deadlock) - decided for every interleaving and store-buffer/reordering behaviour of the sc/tso/arm models; spurious wake-ups not relied on. Includes the 16-bit slot version at 0xFFFF with the full slot freed by a single pop and by the batch pop path (pop_n). The timed exclusive pop and spin-wait liveness are outside the claim (stated).',
 'C03': 'Real ConcurrentFixedSwissTable (SSE group loads scalarised) with a harness hasher: two emplaces of one key (one winner, same element) and emplace vs find reading the mapped value (found element fully constructed) under sc/arm; sequential 64-bucket probing agreement between emplace and find/contains/count with prefilled groups and symbolic home group/tag. Also: two DIFFERENT keys sharing the 7-bit tag and home group racing for one slot (each key one winner, own element, both found; with a prefilled group and with a concurrent lookup), and a full 16-bucket table refusing a symbolic key without consuming the (move-tracking) argument. Growing set (ConcurrentTransientHashSet, head table full so that a new table is chained): the complete emplace of the same key by a second thread performed at a symbolic hash-computation point of the emplace of the first thread (the hasher is a re-entrant scheduling hook; sequential, natively replayed): exactly one insertion reports success, same element, key present once, size/iteration exact. Growth races on two real threads are built but not registered (dev tier, not finishing).',
 'C04': 'Real ConcurrentVector<E,0> (block size 1-2) grown by 2 threads: same index => same address, constructed value visible, ctor/dtor balance after destruction, snapshot reader vs grower, gc() vs grower with symbolic clock; RetireList driven directly with a symbolic clock (1024 s windows at 0 and across the 16-bit timestamp wrap): nothing freed < 64 s after retirement.',
 'C05': 'Real anyflow sources (builder, graph, vertex, data, dependency, closure, executor .cpp + headers) with the graph built by the real GraphBuilder during set-up. (a) Sequential whole-pipeline scenarios on the inplace executor: a chain, and a fan-out/fan-in graph with on/unless conditional dependencies, an essential dependency, an unneeded vertex, symbolic inputs / condition / requested-target set, run twice with reset() in between; oracle = a reference demand-driven evaluation (target values, which vertices ran, once, after their dependencies, closure finished rc 0). (b) Concurrent unit scenarios of the dependency counter protocol: graph->run() (activation) on one thread racing with the external publication of the condition and of the target data on two other threads through the real emit()/release() path, for on/unless, condition true/false, one or two dependencies on the same data; the harness executor only records vertex invocations; oracle = exactly one invocation of the dependent vertex, after the condition was evaluated and (if it holds) the target was ready, producers activated at most once / never when not needed. Thread-pool executor, channels, mutable dependencies and >3 threads are outside the scenarios (stated).',
 'C06': 'Sequential mode on the real memory_resource.cpp: concrete prefix up to a page-array boundary, then 2 symbolic (size from an 8-entry boundary table, alignment 1..512) requests with optional destructor registration; oracle: aligned, owned, disjoint, canaries intact, release() returns each page / oversize block once with its size+alignment, destructors once in reverse order, accounting zero, reusable. Shared/swiss variants outside.',
 'C08': 'Real FutureContext<two-word value, VS> / CountDownLatch: set_value vs on_finish (before/after/concurrent) vs get / wait_for(symbolic timeout incl. negative and the 2^16 largest values, symbolic monotone ns clock < 2^16); callbacks once with the value, get returns it, wait_for true => ready, false => time elapsed; STUCK query for get. Sequential: CountDownLatch with a symbolic initial count 0..4 counted down in two symbolic steps (count_down(k), k > 1 included): ready exactly when the count reaches zero, callbacks registered before / after run exactly once.',
 'C09': 'Real Epoch (x86-64 tick): reader regions (accessor, nested, moved between threads, second slot, released/unlocked accessor) vs unlink+tick+low_water_mark; a reader that still sees the old cell never observes it reclaimed; released/unlocked accessors do not hold the mark back. sc/tso/arm.',
 'C10': 'Sequential mode on the real keep_reclaim(): 0-2 retires, optional reader region closing at a symbolic back-off sleep, stop marker; every reclaimer exactly once, never while the region is open, before the collector returns; plus a region-enter and a retire injected during the queue intake of the collector (reclaimer move-constructor as re-entrant scheduling hook; plain and wrapped two-part intake): that object is never reclaimed while the region is open. Batch retirement with explicit older epochs (retire(r, epoch)) mixed with ordinary retires, so that one intake batch is not ascending, with a region opened at a symbolic point: exactly once, never early. A concurrent collector thread is outside: the three scenarios built for it do not finish within 25 minutes and are not registered.',
 'C13': 'Real coroutine futex.cpp + DepositBox with hand-made coroutine frames (real await_suspend, resume through the bound executor): wake_one / wake_all / cancel / new waiter races for 2 waiters; each suspension resumed exactly once on its executor, wake_one resumes a non-cancelled waiter if one exists, non-matching value does not suspend. Real C++20 coroutines (clang -O1 coroutine lowering is part of the IR): a Task on a harness executor co_awaits Cancellable<Task> whose inner task awaits a Future (set_value / cancellation token / double cancel in a symbolic sequential order), a Future, and a Task awaiting a Future: resumed exactly once on its executor, value iff cancellation lost, the loser reports false, the deposit-box slot is given back. The bookkeeping behind Cancellable (real BasicCancellable + DepositBox, hand-made frames): cancel || finish, cancel || cancel of one wait, and the winner of wait A racing the start of wait B on another thread (slot recycling): each awaiter resumed exactly once by its own trigger, exactly one trigger wins. Two OS threads on real coroutine frames are built but not registered (dev tier, not finishing).',
 'C14': 'Real IdAllocator<uint32_t> (pop vs pop-push-pop ABA, mint race, reuse when free values exist, symbolic alloc/free history of 4 ops vs reference set incl. for_each and end()) and DepositBox (2-3 takers one winner, stale id never matches across slot reuse). ThreadId across three sequential thread generations in two id spaces: stable within a thread, the value of an exited thread is reused with a new version, end() does not grow, for_each reports exactly the live thread. Concurrent thread exit/creation is outside.',
 'C15': 'Real ConcurrentTransientTopic<two-word payload, VS>: publish / publish_n / close vs 1-2 consumers (consume, consume(2)), two publishers; exact sequence then end marker, payload fully visible, STUCK query for consumers. clear()/reuse outside.',
 'C16': 'Real ConcurrentExecutionQueue with a harness Executor (inline / parked consumer): items consumed exactly once, never two consumers at once (plain-access detector), no item stranded once every accepted consumer has run. join() and two sequential items are thorough-tier; concurrent refused-launch races are outside (built, not finishing, not registered; the sequential symbolic refusal schedule covers the refusal logic).',
 'C17': 'Real CachedPageAllocator over a recording upstream: ownership detector (a page is never held twice / returned upstream twice / returned while held) and conservation upstream_out - upstream_in == held + cached. ObjectPool: strict mode with one injected object and two users (pop and try_pop; exclusive holder, recycler once per return, conservation, STUCK: the blocked pop resumes), auto-creating mode with a prefilled pool (created - destroyed == pooled, recycler once per return; sc only). Sequential: a batch of n <= 3 pages requested while the cache holds c <= 2 (partly served from the cache, the rest from upstream), then returned as one batch into a cache with room for only part of it (c, n, refill symbolic): identities, conservation, everything back upstream once at destruction. Batch/counting allocators outside.',
 'C18': 'Sequential mode on the real ConcurrentTransientHashSet: default / sized(4,16) construction, N inserts with duplicates (N symbolic <= 6, and exactly 34 to cross two chained tables), then size/empty/iteration/find/contains vs a reference bitmap. Plus: a COPY of a set grown to 20 elements / of a sized set; histories of 20 (chained tables) or 5 inserts followed by clear / move-construction / move-assignment over a non-empty set / swap (reserve and rehash of the sized set in the thorough tier) and a further symbolic insert, the moved-from and swapped-with sets checked too. reserve/rehash of a chained set and symbolic insert counts above 8 are outside.',
 'C07': 'Real ThreadPoolExecutor (started with 0 OS threads; a harness thread runs the real keep_execute() worker loop): submit()/execute() of 1-2 tasks, the STOP markers of stop(), join == worker returned; every accepted task ran exactly once on a thread that reports is_running_in(), before the stopper passes its join; STUCK query on the futex-based global queue. Sequential re-entrant scenarios run the real start()/stop()/keep_execute()/keep_balance() with std::thread played by the harness: a task that spawned a child into its local queue is pre-empted while another thread stops the pool and the balance thread performs its last steal pass (local capacity 0/2, balance thread on/off, symbolic spawn): nothing accepted is lost behind the STOP tokens. Owner pop vs steal: the real worker loop on a local queue prefilled the way enqueue_task does, racing a harness thread that performs the own try_pop call of the steal loop<true,false> on it - the task runs exactly once (never moved out twice). Work stealing between 2 full workers is thorough-tier; concurrent tasks-spawning-tasks and the new-thread executor are outside.',
 'C11': 'Sequential mode: real babylon serialization traits + BABYLON_COMPATIBLE aggregates over the real protobuf coded-stream inline code, with a model of the out-of-line libprotobuf stream functions (harness/serial/pbmodel.cpp, validated against the real library by native replay of every witness): round trip and predicted size for ALL values of uint64 / int32+bool / nested aggregate, varint wire compatibility with a reference encoder, unknown fields of every wire type skipped, arbitrary input bytes up to 4 (terminates, no read past the input, success => re-serialises and re-parses to itself); a nested aggregate with a payload of 121..132 bytes (symbolic last field) across the one/two-byte length-prefix boundary: predicted size == bytes produced, own output parses back, following field found. The serialized bytes re-parsed through a ZeroCopyInputStream-backed CodedInputStream in symbolic chunk sizes (1..3), with and without an enclosing limit, give the same value (the stream model follows coded_stream.cc and is validated against the real library on every run). Strings, containers, smart pointers, protobuf messages, hostile stream-backed inputs outside.',
 'C12': 'Sequential mode on the real ReusableVector<uint64_t> over ExclusiveMonotonicBufferResource: 2-3 symbolic operations (push_back, pop_back, insert(pos), erase(pos), resize, clear, assign with symbolic positions/counts) from an empty or 3-element vector, plus insert(pos,count,value) / erase(first,last) / resize / clear / push / pop sequences of 3 operations from a 3-element vector, compared after every step with a reference array; size <= constructed_size <= capacity, clear keeps capacity. Plus the re-creation the manager performs: a nested ReusableVector<ReusableVector<uint64_t>> with two inner vectors of symbolic sizes, allocation metadata recorded, a fresh instance built from it on a fresh resource (logically empty, retained capacity covers the largest recorded inner vector), the same workload repeated with no new memory taken from the resource. Strings, nested reusable elements, manager cadence outside.',
 'C19': 'Sequential thread generations (each generation = a new logical thread after the previous one exited and its thread_local destructors ran; natively replayed on real std::threads): adder/summer exact across thread exit and thread-id reuse, maxer/miner extreme of the period for arbitrary 64-bit inputs, local() stable, for_each vs for_each_alive, a new counter recycling a destroyed one starts from zero; a new CompactEnumerableThreadLocal instance created and used from inside the destructor wipe loop of another instance (default-constructor hook) starts from zero and keeps its contents; EnumerableThreadLocal / compact instances moved (move-assigned, rotated through a temporary) while the one-entry local() cache of the thread names one of them (symbolic): local() stays private per (thread, instance) and for_each sums match, also for a later thread generation. Concurrent counting-vs-reading outside.',
 'C20': 'Sequential mode: real LogStreamBuffer + LogEntry::append_to_iovec for every length <= 40 (page 16): scatter list == bytes written, every page once; the same with one flush (pubsync) at a symbolic position inside an entry of length <= 24; real AsyncFileAppender write() x3 with symbolic entry lengths 0..2, stop marker, real keep_writing(): file == concatenation, pages returned. write_use_plain_writev is driven directly with 1020..1030 iovecs against a writev that rejects more than IOV_MAX; a concurrent writer thread is outside (scenarios built, not finishing, not registered).',
}
LEVEL_NOTE = {'C05': 'C05 additionally trusts the harness models of a few out-of-line libstdc++/abseil container functions (listed in the evidence assumptions).'}
TECH_EXTRA = {}
NOT_APPLICABLE = {}

# ----------------------------------------------------------------------------------------------- prototypes (to be enriched)
# RetireList cooling period with a symbolic clock; clock readings within a 1024 s window (16 timestamp units), once at 0
# and once straddling the 16-bit timestamp wrap (sec>>6 == 65536)
S('rl_basic', 'vector/rl1.cpp', {'assert': 'C04'}, opts={'clock': 'sec', 'maxsec': '1024'})
S('rl_wrap', 'vector/rl1.cpp', {'assert': 'C04'}, opts={'clock': 'sec', 'minsec': str((1 << 22) - 512), 'maxsec': str((1 << 22) + 512)})
S('ht_same_key', 'hashtable/ht1.cpp', {'assert': 'C03'})
S('ht_find', 'hashtable/ht2.cpp', {'assert': 'C03'})
# two different keys with the same 7-bit tag and home group race for one slot
S('ht_two_keys_same_tag', 'hashtable/ht3.cpp', {'assert': 'C03'})
S('ht_two_keys_same_tag_prefilled', 'hashtable/ht3.cpp', {'assert': 'C03'}, defs=['VF_PREFILL=3'])
S('ht_two_keys_same_tag_lookup', 'hashtable/ht3.cpp', {'assert': 'C03'}, defs=['VF_LOOKUP=1'])
# growing set: two threads emplace while the full head table forces a new table to be chained
S('hs_conc_grow_same_key', 'hashset/hs_conc.cpp', {'assert': 'C03'}, extra=['babylon/concurrent/transient_hash_table.cpp'], tiers=('dev',), bound=2)
S('hs_conc_grow_two_keys', 'hashset/hs_conc.cpp', {'assert': 'C03'}, extra=['babylon/concurrent/transient_hash_table.cpp'], defs=['VF_K1=0x0612'], tiers=('dev',), bound=2)
# the same race as one interleaving per hash-computation point (re-entrant scheduling hook = the hasher), sequential, natively replayed
S('hs_reent_grow_same_key', 'hashset/hs_reent.cpp', {'assert': 'C03'}, extra=['babylon/concurrent/transient_hash_table.cpp'], models=['sc'], bound=100)
S('hs_reent_nogrow_same_key', 'hashset/hs_reent.cpp', {'assert': 'C03'}, extra=['babylon/concurrent/transient_hash_table.cpp'], models=['sc'], bound=100, defs=['VF_PREFILL=5'])
# full table: insertion fails without consuming its argument
S('ht_full_refuses', 'hashtable/ht_full.cpp', {'assert': 'C03'}, models=['sc'], bound=100)
S('ht_probe_two_full_groups', 'hashtable/ht_probe.cpp', {'assert': 'C03'}, models=['sc'], bound=100, defs=['VF_FULL_GROUPS=2'])
S('ht_probe_three_full_groups', 'hashtable/ht_probe.cpp', {'assert': 'C03'}, models=['sc'], bound=100, defs=['VF_FULL_GROUPS=3'], tiers=TH)
# ----------------------------------------------------------------------------------------------- C20: logging
LEX = ['babylon/logging/log_entry.cpp', 'babylon/reusable/page_allocator.cpp']
S('le_sputc_n40', 'logging/le3.cpp', {'assert': 'C20'}, extra=LEX, models=['sc'], bound=200, defs=['VF_N=40'])
S('le_sputc_flush_n24', 'logging/le3.cpp', {'assert': 'C20'}, extra=LEX, models=['sc'], bound=200, defs=['VF_N=24', 'VF_FLUSH=1'])
S('le_sputc_n130', 'logging/le3.cpp', {'assert': 'C20'}, extra=LEX, models=['sc'], bound=400, defs=['VF_N=130'], tiers=('thorough',), timeout=3600, qcap=1800)
