// C17: ObjectPool<O> (strict and auto-creating mode) used from 2 threads. Ownership detector: an object handed out by
// pop()/try_pop() is held by nobody else until its smart pointer is released; strict mode never has more than the injected
// objects outstanding and a blocked pop() resumes when an object comes back (STUCK query); auto-creating mode runs the
// recycler once per returned object and destroys overflow instead of leaking it (created - destroyed == pooled at the end).
#include "babylon/concurrent/object_pool.h"
#include "vf.h"
using namespace babylon;
uint64_t created, destroyed, recycled, double_hold, got[2], nullpop[2];
struct O { uint64_t holder {0}; uint64_t alive {1};
  O() noexcept { __atomic_fetch_add(&created, 1, __ATOMIC_RELAXED); }
  ~O() noexcept { if (alive != 1) double_hold = 1; alive = 0; __atomic_fetch_add(&destroyed, 1, __ATOMIC_RELAXED); } };
using Pool = ObjectPool<O>;
Pool* pool;
static void use(O* o) {                       // plain (non-atomic) accesses: exclusive access means no other holder can be seen
  if (o->holder != 0 || o->alive != 1) double_hold = 1;
  o->holder = 1; vf_yield(); if (o->holder != 1) double_hold = 1; o->holder = 0;
}
#define POP_USE_RELEASE(t) do { auto p = pool->pop(); if (p) { got[t]++; use(p.get()); } else nullpop[t]++; } while (0)
#define TRYPOP_USE_RELEASE(t) do { auto p = pool->try_pop(); if (p) { got[t]++; use(p.get()); } else nullpop[t]++; } while (0)
#define POP_HOLD_POP(t) do { auto p = pool->pop(); auto q = pool->pop(); if (p && q) { got[t] += 2; if (p.get() == q.get()) double_hold = 1; use(p.get()); use(q.get()); } } while (0)
extern "C" void vf_init() {
  pool = new Pool; pool->reserve_and_clear(VF_CAP);
  pool->set_recycler([](O& o) { __atomic_fetch_add(&recycled, 1, __ATOMIC_RELAXED); if (o.holder != 0) double_hold = 1; });
#ifdef VF_AUTO
  pool->set_creator([] { return std::unique_ptr<O>(new O); });
#endif
  for (int i = 0; i < VF_INJECT; ++i) pool->push(std::unique_ptr<O>(new O));
  recycled = 0;
}
extern "C" void vf_thread_0() { VF_T0; }
extern "C" void vf_thread_1() { VF_T1; }
extern "C" void vf_final() {
  vf_check(double_hold == 0, 1);                                            // never shared, never used after destruction
  uint64_t pooled = pool->free_object_number();
  vf_check(created - destroyed == pooled, 2);                               // conserved: nothing leaked, nothing destroyed twice
  // (no bound on `pooled` itself: the capacity test in push() is check-then-act, two racing returns may both be kept; what the
  //  property promises is that overflow is destroyed, not leaked = the conservation equation above)
  vf_check(recycled == got[0] + got[1], 4);                                 // recycler once per returned object
#ifndef VF_AUTO
  vf_check(created == VF_INJECT && destroyed == 0 && nullpop[0] + nullpop[1] <= VF_EXPECT_NULL, 5);     // strict: only injected objects, all back; a blocking pop never comes back empty
#endif
}
