// C17: CachedPageAllocator over a recording upstream: a page is owned by at most one party; conservation at quiescence.
#include "babylon/reusable/page_allocator.h"
#include "vf.h"
using namespace babylon;
#define VF_NPAGE 8
alignas(64) char pool[VF_NPAGE][64];
uint64_t up_out[VF_NPAGE];      // 1 while the page is outside the upstream allocator
uint64_t owner[VF_NPAGE];       // 0 = nobody (cached or upstream), t+1 = held by harness thread t
uint64_t up_next, up_allocs, up_frees; uint64_t flag[4];
static inline size_t page_index(void* p) { size_t k = ((char*)p - &pool[0][0]) / 64; vf_check(k < VF_NPAGE && p == (void*)pool[k < VF_NPAGE ? k : 0], 6); return k < VF_NPAGE ? k : 0; }
struct UP : public PageAllocator {
  size_t page_size() const noexcept override { return 64; }
  void allocate(void** pages, size_t n) noexcept override {
    for (size_t i = 0; i < n; ++i) { uint64_t k = __atomic_fetch_add(&up_next, 1, __ATOMIC_RELAXED); vf_check(k < VF_NPAGE, 9); k = k < VF_NPAGE ? k : 0;
      __atomic_store_n(&up_out[k], 1, __ATOMIC_RELAXED); pages[i] = pool[k]; __atomic_fetch_add(&up_allocs, 1, __ATOMIC_RELAXED); } }
  void deallocate(void** pages, size_t n) noexcept override {
    for (size_t i = 0; i < n; ++i) { size_t k = page_index(pages[i]);
      vf_check(__atomic_exchange_n(&up_out[k], 0, __ATOMIC_RELAXED) == 1, 2);          // never returned upstream twice
      vf_check(__atomic_load_n(&owner[k], __ATOMIC_RELAXED) == 0, 3);                  // not while a caller holds it
      __atomic_fetch_add(&up_frees, 1, __ATOMIC_RELAXED); } }
};
UP up; CachedPageAllocator* pa; void* held[4][4];
#define SIGNAL(i) __atomic_store_n(&flag[i], 1, __ATOMIC_RELEASE)
#define AWAIT(i) vf_assume(__atomic_load_n(&flag[i], __ATOMIC_ACQUIRE) == 1)
static inline void take(int t, void* p, int slot) { size_t k = page_index(p); vf_check(__atomic_exchange_n(&owner[k], (uint64_t)t + 1, __ATOMIC_ACQ_REL) == 0, 1); vf_check(__atomic_load_n(&up_out[k], __ATOMIC_RELAXED) == 1, 4); held[t][slot] = p; }
static inline void give(int t, void* p) { size_t k = page_index(p); vf_check(__atomic_exchange_n(&owner[k], 0, __ATOMIC_ACQ_REL) == (uint64_t)t + 1, 1); }
#define ALLOC1(slot) do { void* p = pa->allocate(); take(T, p, slot); } while (0)
#define FREE1(slot) do { give(T, held[T][slot]); pa->deallocate(held[T][slot]); held[T][slot] = nullptr; } while (0)
#define ALLOC2(s0) do { void* ps[2]; pa->allocate(ps, 2); take(T, ps[0], s0); take(T, ps[1], s0 + 1); } while (0)
#define FREE2(s0) do { void* ps[2] = {held[T][s0], held[T][s0 + 1]}; give(T, ps[0]); give(T, ps[1]); pa->deallocate(ps, 2); held[T][s0] = held[T][s0 + 1] = nullptr; } while (0)
#define FREE3(s0) do { void* ps[3] = {held[T][s0], held[T][s0 + 1], held[T][s0 + 2]}; give(T, ps[0]); give(T, ps[1]); give(T, ps[2]); pa->deallocate(ps, 3); held[T][s0] = held[T][s0 + 1] = held[T][s0 + 2] = nullptr; } while (0)
#define BODY(n) extern "C" void vf_thread_##n() { constexpr int T = n; (void)T; VF_T##n; }
#define PRO(n) extern "C" void vf_prologue_##n() { pa->_cache_hit << ConcurrentSummer::Summary {0, 0}; }
extern "C" void vf_init() { pa = new CachedPageAllocator; pa->set_upstream(up); pa->set_free_page_capacity(VF_CAP);
#ifdef VF_INIT
  VF_INIT;
#endif
}
#ifdef VF_T0
BODY(0) PRO(0)
#endif
#ifdef VF_T1
BODY(1) PRO(1)
#endif
#ifdef VF_T2
BODY(2) PRO(2)
#endif
extern "C" void vf_final() {
  uint64_t nheld = 0; for (int t = 0; t < 4; ++t) for (int s = 0; s < 4; ++s) if (held[t][s] != nullptr) nheld++;
  // pages obtained from upstream minus returned upstream == held by callers + cached
  vf_check(up_allocs - up_frees == nheld + pa->free_page_num(), 5);
  VF_FINAL;
}
