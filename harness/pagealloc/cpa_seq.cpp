// C17 (sequential): CachedPageAllocator with a free-page ring of 4 over a recording upstream. The ring indices are advanced
// by 3 single-page round trips, then a BATCH of k pages (k symbolic 1..3) is returned: its slot range crosses the end of the
// ring (push_n runs its copy callback twice), and the pages are taken out again. Oracle: page identities - nothing handed out
// twice, nothing lost, everything back upstream exactly once when the allocator is destroyed.
#include "babylon/reusable/page_allocator.h"
#include "vf.h"
using namespace babylon;
#define VF_NPAGE 8
alignas(64) char pool[VF_NPAGE][64]; uint64_t up_out[VF_NPAGE]; uint64_t held_by_caller[VF_NPAGE]; uint64_t up_next, up_allocs, up_frees;
static size_t page_index(void* p) { size_t k = ((char*)p - &pool[0][0]) / 64; vf_check(k < VF_NPAGE && p == (void*)pool[k < VF_NPAGE ? k : 0], 6); return k < VF_NPAGE ? k : 0; }
struct UP : public PageAllocator {
  size_t page_size() const noexcept override { return 64; }
  void allocate(void** pages, size_t n) noexcept override { for (size_t i = 0; i < n; ++i) { uint64_t k = up_next++; vf_check(k < VF_NPAGE, 9); k = k < VF_NPAGE ? k : 0; up_out[k] = 1; pages[i] = pool[k]; up_allocs++; } }
  void deallocate(void** pages, size_t n) noexcept override { for (size_t i = 0; i < n; ++i) { size_t k = page_index(pages[i]); vf_check(up_out[k] == 1, 2); up_out[k] = 0; vf_check(held_by_caller[k] == 0, 3); up_frees++; } }
};
UP up; CachedPageAllocator* pa;
static void take(void* p) { size_t k = page_index(p); vf_check(held_by_caller[k] == 0, 1); vf_check(up_out[k] == 1, 4); held_by_caller[k] = 1; }     // a page is owned by at most one party
static void give(void* p) { size_t k = page_index(p); vf_check(held_by_caller[k] == 1, 1); held_by_caller[k] = 0; }
extern "C" void vf_init() { pa = new CachedPageAllocator; pa->set_upstream(up); pa->set_free_page_capacity(4); }
#ifdef VF_PARTIAL
#ifndef VF_CMAX
#define VF_CMAX 3
#define VF_NMAX 4
#define VF_BMAX 3
#endif
// second program: the cache holds c pages (c symbolic 0..3), a batch of n pages (n symbolic 1..4) is requested - partly served from
// the cache, the rest from upstream - and later returned as one batch into a cache that has room for only some of them
extern "C" void vf_thread_0() {
  uint64_t c = vf_nondet64(), n = vf_nondet64(), back = vf_nondet64(); vf_assume(c <= VF_CMAX && n >= 1 && n <= VF_NMAX && back <= VF_BMAX);
  void* p[4]; void* q[4]; void* r[3];
  for (uint64_t i = 0; i < c && i < 3; ++i) { p[i] = pa->allocate(); take(p[i]); }
  for (uint64_t i = 0; i < c && i < 3; ++i) { give(p[i]); pa->deallocate(p[i]); }            // c pages cached
  vf_check(pa->free_page_num() == c, 5);
  pa->allocate(q, n); for (uint64_t i = 0; i < n && i < 4; ++i) take(q[i]);                  // min(c,n) from the cache, the rest from upstream
  for (uint64_t i = 0; i < n && i < 4; ++i) for (uint64_t j = 0; j < i; ++j) vf_check(q[i] != q[j], 1);
  vf_check(up_allocs - up_frees == n + pa->free_page_num(), 5);
  for (uint64_t i = 0; i < back && i < 3; ++i) { r[i] = pa->allocate(); take(r[i]); }        // some more pages out, then back: the cache fills up again
  for (uint64_t i = 0; i < back && i < 3; ++i) { give(r[i]); pa->deallocate(r[i]); }
  for (uint64_t i = 0; i < n && i < 4; ++i) give(q[i]);
  pa->deallocate(q, n);                                                                      // capacity 4: what does not fit goes upstream
  vf_check(pa->free_page_num() <= 4, 5);
  vf_check(up_allocs - up_frees == pa->free_page_num(), 5);                                  // conservation at quiescence
  delete pa;
  vf_check(up_allocs == up_frees, 5);
  for (int k = 0; k < VF_NPAGE; ++k) vf_check(up_out[k] == 0, 2);
}
#else
extern "C" void vf_thread_0() {
  uint64_t k = vf_nondet64(); vf_assume(k >= 1 && k <= 3);
  void* p[3];
  for (int i = 0; i < 3; ++i) { p[i] = pa->allocate(); take(p[i]); }
  for (int i = 0; i < 3; ++i) { give(p[i]); pa->deallocate(p[i]); }            // ring slots 0,1,2 used: next push index 3
  pa->allocate(p, 3); for (int i = 0; i < 3; ++i) take(p[i]);                   // next pop index 3
  for (uint64_t i = 0; i < k && i < 3; ++i) give(p[i]);
  pa->deallocate(p, k);                                                         // batch of k lands in slots 3, 0, 1: wraps for k >= 2
  for (uint64_t i = k; i < 3; ++i) { give(p[i]); pa->deallocate(p[i]); }
  void* q[3]; pa->allocate(q, 3); for (int i = 0; i < 3; ++i) take(q[i]);       // all three come back, each exactly once
  vf_check(q[0] != q[1] && q[1] != q[2] && q[0] != q[2], 1);
  for (int i = 0; i < 3; ++i) { give(q[i]); pa->deallocate(q[i]); }
  vf_check(up_allocs - up_frees == pa->free_page_num(), 5);                     // conservation at quiescence
  delete pa;
  vf_check(up_allocs == up_frees, 5);                                           // everything returned upstream exactly once
}
#endif
