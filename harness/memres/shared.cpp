// C06 (sequential thread generations): SharedMonotonicBufferResource used by two threads (the main thread in vf_init and a
// worker thread); release() must run EVERY registered destructor before ANY page goes back to the page allocator: a
// destructor may look at blocks other threads allocated from the same resource. Sizes are symbolic.
#include "babylon/reusable/memory_resource.h"
#include "vf.h"
using namespace babylon;
#define VF_PS 256
#define VF_NPG 8
alignas(VF_PS) char pool[VF_NPG][VF_PS]; uint64_t pg_state[VF_NPG]; uint64_t pg_next, pg_out;
struct PA : public PageAllocator {
  size_t page_size() const noexcept override { return VF_PS; }
  void allocate(void** pages, size_t n) noexcept override { for (size_t i = 0; i < n; ++i) { vf_check(pg_next < VF_NPG, 9); size_t k = pg_next < VF_NPG ? pg_next : 0; pg_next++; pg_state[k] = 1; pg_out++; pages[i] = pool[k]; } }
  void deallocate(void** pages, size_t n) noexcept override { for (size_t i = 0; i < n; ++i) { size_t k = ((char*)pages[i] - &pool[0][0]) / VF_PS; vf_check(k < VF_NPG && pg_state[k < VF_NPG ? k : 0] == 1, 6); k = k < VF_NPG ? k : 0; pg_state[k] = 2; pg_out--; pool[k][0] = (char)0xDD; } }
};
static bool live(const char* p) { size_t k = (p - &pool[0][0]) / VF_PS; return p >= &pool[0][0] && k < VF_NPG && pg_state[k < VF_NPG ? k : 0] == 1; }
PA pa; SharedMonotonicBufferResource* res; char* blk_a; char* blk_b; uint64_t ndtor_a, ndtor_b; uint64_t size_a, size_b;
static void dtor_a(void*) { ndtor_a++; vf_check(live(blk_b) && blk_b[size_b - 1] == 0x42, 2); }      // still sees the other thread's block
static void dtor_b(void*) { ndtor_b++; vf_check(live(blk_a) && blk_a[size_a - 1] == 0x41, 2); }
extern "C" void vf_init() {
  (void)ExclusiveMonotonicBufferResource::oversize_page_concurrent_adder();
  res = new SharedMonotonicBufferResource(pa);
  size_a = 40; blk_a = (char*)res->allocate(size_a, 8); blk_a[size_a - 1] = 0x41;                       // main thread's sub-resource
  res->register_destructor(blk_a, dtor_a);
}
extern "C" void vf_thread_0() {                                                                          // a second, live thread
  size_b = vf_nondet64(); vf_assume(size_b >= 1 && size_b <= 200);
  blk_b = (char*)res->allocate(size_b, 8); vf_check(live(blk_b) && (blk_b + size_b <= blk_a || blk_a + size_a <= blk_b), 1);
  blk_b[size_b - 1] = 0x42;
  res->register_destructor(blk_b, dtor_b);
  res->release();
  vf_check(ndtor_a == 1 && ndtor_b == 1, 3);
  vf_check(pg_out == 0, 4);
}
