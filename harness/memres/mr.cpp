// C06 (sequential): ExclusiveMonotonicBufferResource over a recording page allocator (page 256 B) and a recording
// upstream resource. VF_PREFIX concrete allocations put the resource next to a page-array boundary, then VF_K symbolic
// (bytes, alignment) requests, optional destructor registration, release(). Oracle: aligned, inside owned memory,
// pairwise disjoint, contents preserved (canaries), release returns every page / oversize block exactly once with the
// size and alignment it was obtained with, destructors once in reverse order, accounting zero, reusable.
#include "babylon/reusable/memory_resource.h"
#include "vf.h"
using namespace babylon;
#define VF_PS 256
#define VF_NPG 24
#ifndef VF_K
#define VF_K 3
#endif
#ifndef VF_PREFIX
#define VF_PREFIX 0
#endif
alignas(VF_PS) char pool[VF_NPG][VF_PS]; uint64_t pg_state[VF_NPG]; uint64_t pg_next, pg_out;
struct PA : public PageAllocator {
  size_t page_size() const noexcept override { return VF_PS; }
  void allocate(void** pages, size_t n) noexcept override { for (size_t i = 0; i < n; ++i) { vf_check(pg_next < VF_NPG, 9); size_t k = pg_next < VF_NPG ? pg_next : 0; pg_next++; pg_state[k] = 1; pg_out++; pages[i] = pool[k]; } }
  void deallocate(void** pages, size_t n) noexcept override { for (size_t i = 0; i < n; ++i) { size_t k = ((char*)pages[i] - &pool[0][0]) / VF_PS; vf_check(k < VF_NPG && pages[i] == (void*)pool[k < VF_NPG ? k : 0], 6); k = k < VF_NPG ? k : 0; vf_check(pg_state[k] == 1, 6); pg_state[k] = 2; pg_out--; } }
};
alignas(1024) char upool[8192]; uint64_t up_cur; struct UpRec { char* p; size_t bytes, align; uint64_t state; }; UpRec ups[6]; uint64_t nups;
struct UP : public std::pmr::memory_resource {
  void* do_allocate(size_t bytes, size_t alignment) noexcept override {
    uint64_t a = alignment ? alignment : 1; uint64_t off = (up_cur + a - 1) & ~(a - 1);
    vf_check(off + bytes <= sizeof(upool) && nups < 6, 9);
    up_cur = off + bytes; char* p = upool + (off < sizeof(upool) ? off : 0);
    if (nups < 6) ups[nups] = UpRec{p, bytes, alignment, 1}; nups++; return p; }
  void do_deallocate(void* ptr, size_t bytes, size_t alignment) noexcept override {
    bool found = false;
    for (uint64_t i = 0; i < nups && i < 6; ++i) if (ups[i].p == ptr && ups[i].state == 1 && !found) { found = true; vf_check(ups[i].bytes == bytes && ups[i].align == alignment, 7); ups[i].state = 2; }
    vf_check(found, 7); }
  bool do_is_equal(const std::pmr::memory_resource& o) const noexcept override { return this == &o; }
};
PA pa; UP up; ExclusiveMonotonicBufferResource* res;
uint64_t dtor_order[VF_K]; uint64_t ndtor;
struct Blk { char* p; uint64_t bytes; }; Blk blk[VF_K];
static void dtor0(void*) { if (ndtor < VF_K) dtor_order[ndtor] = 0; ndtor++; }
static void dtor1(void*) { if (ndtor < VF_K) dtor_order[ndtor] = 1; ndtor++; }
static void dtor2(void*) { if (ndtor < VF_K) dtor_order[ndtor] = 2; ndtor++; }
static void (*dtors[3])(void*) = {dtor0, dtor1, dtor2};
static inline bool owned(char* p, uint64_t bytes) {
  if (bytes == 0) return true;                  // an empty block occupies no memory (end of a page, or null before the first page)
  if (p >= &pool[0][0] && p < &pool[0][0] + sizeof(pool)) { size_t k = (p - &pool[0][0]) / VF_PS; return pg_state[k < VF_NPG ? k : 0] == 1 && p + bytes <= pool[k < VF_NPG ? k : 0] + VF_PS; }
  for (uint64_t i = 0; i < nups && i < 6; ++i) if (ups[i].state == 1 && p >= ups[i].p && p + bytes <= ups[i].p + ups[i].bytes) return true;
  return false;
}
extern "C" void vf_init() {
  (void)ExclusiveMonotonicBufferResource::oversize_page_concurrent_adder();
  res = new ExclusiveMonotonicBufferResource; res->set_page_allocator(pa); res->set_upstream(up);
  for (int i = 0; i < VF_PREFIX; ++i) res->allocate(VF_PREFIX_BYTES, 8);
}
extern "C" void vf_thread_0() {
  uint64_t nreg = 0; uint64_t regs[VF_K];
  for (int i = 0; i < VF_K; ++i) {
    static const uint64_t BY[8] = {0, 1, 24, 120, 129, 200, 256, 300};      // sizes around the page (256) and page-array (128) boundaries
    uint64_t bi = vf_nondet64(); uint64_t e = vf_nondet64(); vf_assume(bi < 8 && e <= VF_MAXALIGN_LOG2);
    uint64_t bytes = BY[bi & 7]; vf_assume(bytes <= VF_MAXBYTES);
    uint64_t align = 1ull << e;
    char* p = (char*)res->allocate(bytes, align);
    vf_check(((uint64_t)p & (align - 1)) == 0, 1);                       // aligned as requested
    vf_check(owned(p, bytes), 2);                                         // inside memory the resource owns
    for (int j = 0; j < i; ++j) vf_check(p + bytes <= blk[j].p || blk[j].p + blk[j].bytes <= p, 3);   // disjoint
    blk[i] = Blk{p, bytes};
    if (bytes > 0) { p[0] = (char)(0x40 + i); p[bytes - 1] = (char)(0x50 + i); }
    if (bytes > 1) p[bytes / 2] = (char)(0x60 + i);
    if (vf_nondet64() & 1) { res->register_destructor(p, dtors[i < 3 ? i : 0]); regs[nreg] = i; nreg++; }
  }
  for (int i = 0; i < VF_K; ++i) {                                        // contents survive later allocations / bookkeeping
    if (blk[i].bytes > 1) vf_check(blk[i].p[blk[i].bytes / 2] == (char)(0x60 + i), 4);
    if (blk[i].bytes > 0) vf_check(blk[i].p[blk[i].bytes - 1] == (char)(0x50 + i) && (blk[i].bytes == 1 || blk[i].p[0] == (char)(0x40 + i)), 4);
  }
  res->release();
  vf_check(ndtor == nreg, 5);
  for (uint64_t i = 0; i < nreg && i < VF_K; ++i) vf_check(dtor_order[i] == regs[nreg - 1 - i], 5);      // each once, reverse order
  vf_check(pg_out == 0, 6);
  for (uint64_t i = 0; i < nups && i < 6; ++i) vf_check(ups[i].state == 2, 7);
  vf_check(res->space_used() == 0 && res->space_allocated() == 0, 8);
  char* q = (char*)res->allocate(16, 8); vf_check(((uint64_t)q & 7) == 0 && owned(q, 16), 8);          // reusable
  res->release(); vf_check(pg_out == 0, 8);
}
