// C09: reader regions vs unlink + tick + low_water_mark on the real Epoch (x86-64 variant of tick()).
// Model of reclamation: the writer unlinks (cell: 1 -> 2), ticks, and "frees" (freed = 1) only if low_water_mark()
// has reached its tick. A reader that still sees the old cell inside its region must never observe freed == 1.
#include "babylon/concurrent/epoch.h"
#include "vf.h"
using babylon::Epoch;
Epoch* e; Epoch::Accessor acc[3];
std::atomic<uint64_t> cell{1}; std::atomic<uint64_t> freed{0}; uint64_t flag[4]; uint64_t lwm_after[2];
#define SIGNAL(i) __atomic_store_n(&flag[i], 1, __ATOMIC_RELEASE)
#define AWAIT(i) vf_assume(__atomic_load_n(&flag[i], __ATOMIC_ACQUIRE) == 1)
#define USE() do { auto v = cell.load(std::memory_order_acquire); if (v == 1) vf_check(freed.load(std::memory_order_relaxed) == 0, 1); } while (0)
#define READER(a) do { acc[a].lock(); USE(); acc[a].unlock(); } while (0)
#define READER_NESTED(a) do { acc[a].lock(); acc[a].lock(); acc[a].unlock(); USE(); acc[a].unlock(); } while (0)
// the object is obtained in the OUTER region and still used inside / after a nested region entered later
#define READER_NESTED_HOLD(a) do { acc[a].lock(); auto v = cell.load(std::memory_order_acquire); acc[a].lock(); if (v == 1) vf_check(freed.load(std::memory_order_relaxed) == 0, 1); \
    acc[a].unlock(); if (v == 1) vf_check(freed.load(std::memory_order_relaxed) == 0, 1); acc[a].unlock(); } while (0)
#define READER_TL() do { e->lock(); USE(); e->unlock(); } while (0)
#define WRITER() do { cell.store(2, std::memory_order_release); auto t = e->tick(); auto lwm = e->low_water_mark(); if (t <= lwm) freed.store(1, std::memory_order_relaxed); } while (0)
// progress direction: once every region is closed / accessor released, the mark must not be held back
#define WRITER_MUST_RECLAIM() do { auto t = e->tick(); auto lwm = e->low_water_mark(); vf_check(t <= lwm, 2); } while (0)
#ifndef VF_NACC
#define VF_NACC 1
#endif
extern "C" void vf_init() { e = new Epoch; for (int i = 0; i < VF_NACC; ++i) acc[i] = e->create_accessor();
#ifdef VF_INIT
  VF_INIT;
#endif
}
#define BODY(n) extern "C" void vf_thread_##n() { VF_T##n; }
#ifdef VF_P0
extern "C" void vf_prologue_0() { VF_P0; }
#endif
#ifdef VF_P1
extern "C" void vf_prologue_1() { VF_P1; }
#endif
#ifdef VF_T0
BODY(0)
#endif
#ifdef VF_T1
BODY(1)
#endif
#ifdef VF_T2
BODY(2)
#endif
#ifdef VF_T3
BODY(3)
#endif
