#include "babylon/concurrent/epoch.h"
#include "vf.h"
using babylon::Epoch;
Epoch* e; Epoch::Accessor acc0; 
std::atomic<uint64_t> cell{1}; std::atomic<uint64_t> freed{0};
extern "C" {
void vf_init() { e = new Epoch; acc0 = e->create_accessor(); }
void vf_thread_0() {           // reader
  acc0.lock();
  auto v = cell.load(std::memory_order_acquire);
  if (v == 1) { vf_assert(freed.load(std::memory_order_relaxed) == 0); }
  acc0.unlock();
}
void vf_thread_1() {           // writer: unlink, tick, reclaim if allowed
  cell.store(2, std::memory_order_release);
  auto t = e->tick();
  auto lwm = e->low_water_mark();
  if (t <= lwm) { freed.store(1, std::memory_order_relaxed); }
}
}
