// C15: ConcurrentTransientTopic<P2, VS>: publishers (single / batch), independent consumers, close racing the last publish.
#include "babylon/concurrent/transient_topic.h"
#include "vf.h"
struct P2 { uint64_t a, b; };
using T_ = babylon::ConcurrentTransientTopic<P2, VS>;
T_* t; uint64_t got[4][4]; uint64_t ngot[4]; uint64_t ended[4]; uint64_t flag[4];
static inline P2 mk(uint64_t v) { return P2{v, ~v}; }
#define SIGNAL(i) __atomic_store_n(&flag[i], 1, __ATOMIC_RELEASE)
#define AWAIT(i) vf_assume(__atomic_load_n(&flag[i], __ATOMIC_ACQUIRE) == 1)
#define PUB(v) t->publish(mk(v))
#define PUBN2(v0, v1) t->publish_n(2, [&](T_::Iterator b, T_::Iterator e) { uint64_t vv[2] = {v0, v1}; int k = 0; for (; b != e; ++b) { *b = mk(vv[k < 2 ? k : 1]); ++k; } })
#define CLOSE() t->close()
// consume one item with an existing consumer object `c`
#define CONS1() do { const P2* x = c.consume(); if (x) { vf_check(x->b == ~x->a, 2); if (ngot[T] < 4) got[T][ngot[T]] = x->a; ngot[T]++; } else ended[T]++; } while (0)
#define CONS2() do { auto r = c.consume(2); for (size_t i = 0; i < r.size() && i < 2; ++i) { vf_check(r[i].b == ~r[i].a, 2); if (ngot[T] < 4) got[T][ngot[T]] = r[i].a; ngot[T]++; } if (r.size() < 2) ended[T]++; } while (0)
// batch consume of 4 starting near the end of a 128-slot block (VF_INIT moved the indices there)
#define CONS4() do { auto r = c.consume(4); for (size_t i = 0; i < r.size() && i < 4; ++i) { vf_check(r[i].b == ~r[i].a, 2); if (ngot[T] < 4) got[T][ngot[T]] = r[i].a; ngot[T]++; } if (r.size() < 4) ended[T]++; } while (0)
#define BODY(n) extern "C" void vf_thread_##n() { constexpr int T = n; (void)T; VF_T##n; }
extern "C" void vf_init() { t = new T_; t->_slots.reserve(4);
#ifdef VF_INIT
  VF_INIT;
#endif
}
#ifdef VF_T0
BODY(0)
#endif
#ifdef VF_T1
BODY(1)
#endif
#ifdef VF_T2
BODY(2)
#endif
#ifdef VF_T3
BODY(3)
#endif
extern "C" void vf_final() { VF_FINAL; }
