// C11 (sequential): a nested (length-delimited) aggregate whose payload size is symbolic between 110 and 132 bytes, i.e. across
// the one-byte / two-byte length-prefix boundary at 127/128: predicted size == bytes produced, round trip, and the field
// that follows the nested one is found again (the length prefix is exact).
#include "babylon/serialization.h"
#include "vf.h"
#include <google/protobuf/io/zero_copy_stream.h>
using namespace babylon;
using google::protobuf::io::CodedInputStream; using google::protobuf::io::CodedOutputStream;
struct Inner { uint64_t f1, f2, f3, f4, f5, f6, f7, f8, f9, f10, f11, f12;
  BABYLON_COMPATIBLE((f1, 1)(f2, 2)(f3, 3)(f4, 4)(f5, 5)(f6, 6)(f7, 7)(f8, 8)(f9, 9)(f10, 10)(f11, 11)(f12, 12)) };
struct Outer { Inner in; uint64_t tail; BABYLON_COMPATIBLE((in, VF_INNER_FIELD)(tail, 2)) };
struct ArrOut : public google::protobuf::io::ZeroCopyOutputStream {
  uint8_t* data; int size; int pos {0};
  ArrOut(uint8_t* d, int n) : data(d), size(n) {}
  bool Next(void** d, int* n) override { if (pos < size) { *d = data + pos; *n = size - pos; pos = size; return true; } return false; }
  void BackUp(int count) override { pos -= count; }
  int64_t ByteCount() const override { return pos; }
};
uint8_t out[192];
extern "C" void vf_init() {}
#define BIG(i) ((1ull << 63) | (0x0101010101010101ull * (i)))       /* a 10-byte varint: 11 bytes with its tag */
extern "C" void vf_thread_0() {
  Outer x;
  // VF_NBIG concrete 11-byte fields bring the payload just below the boundary; the last field is symbolic (0..11 bytes)
  x.in.f1 = BIG(1); x.in.f2 = BIG(2); x.in.f3 = BIG(3); x.in.f4 = BIG(4); x.in.f5 = BIG(5); x.in.f6 = BIG(6);
  x.in.f7 = BIG(7); x.in.f8 = BIG(8); x.in.f9 = BIG(9); x.in.f10 = BIG(10);
  x.in.f11 = BIG(11);
  x.in.f12 = vf_nondet64();                               // any size 0..10
  x.tail = vf_nondet64(); vf_assume(x.tail >= 1 && x.tail < 128);
  size_t n = Serialization::calculate_serialized_size(x);
  vf_check(n <= 192, 1);
  { ArrOut ao(out, (int)n); CodedOutputStream os(&ao); bool ok = Serialization::serialize_to_coded_stream_with_cached_size(x, os); vf_check(ok, 1); os.Trim();
    vf_check(!os.HadError(), 1); vf_check(ao.ByteCount() == (int64_t)n, 2); }        // predicted size == bytes produced
  Outer y {};
  { CodedInputStream is(out, (int)n); bool ok = Serialization::parse_from_coded_stream(is, y); vf_check(ok, 3); }
  vf_check(y.tail == x.tail, 4);                           // the field after the nested aggregate is found again
  vf_check(y.in.f1 == x.in.f1 && y.in.f2 == x.in.f2 && y.in.f3 == x.in.f3 && y.in.f4 == x.in.f4 && y.in.f5 == x.in.f5 && y.in.f6 == x.in.f6, 4);
  vf_check(y.in.f7 == x.in.f7 && y.in.f8 == x.in.f8 && y.in.f9 == x.in.f9 && y.in.f10 == x.in.f10 && y.in.f11 == x.in.f11 && y.in.f12 == x.in.f12, 4);
}
