// C11 (sequential): babylon serialization of scalars and a BABYLON_COMPATIBLE aggregate through real protobuf coded-stream
// inline code + pbmodel.cpp. (a) round trip + predicted size for symbolic values, wire compatibility with a reference
// protobuf encoder written from the spec; (b) arbitrary input bytes (symbolic length <= VF_INLEN): parsing terminates,
// reads stay inside the input, and a successful parse re-serialises and re-parses to itself.
#include "babylon/serialization.h"
#include "vf.h"
#include <google/protobuf/io/zero_copy_stream.h>
using namespace babylon;
using google::protobuf::io::CodedInputStream; using google::protobuf::io::CodedOutputStream;
#ifndef VF_SHAPE
#define VF_SHAPE 0
#endif
#if VF_SHAPE == 0      // one unsigned 64-bit field
struct Inner { uint32_t u; int64_t s; };
struct Agg { uint64_t a; int32_t b; bool c; Inner in; BABYLON_COMPATIBLE((a, 1)) };
#elif VF_SHAPE == 1    // signed 32-bit (negative values take 10 bytes) + bool
struct Inner { uint32_t u; int64_t s; };
struct Agg { uint64_t a; int32_t b; bool c; Inner in; BABYLON_COMPATIBLE((b, 2)(c, 3)) };
#elif VF_SHAPE == 2    // nested aggregate (length-delimited) after a scalar
struct Inner { uint32_t u; int64_t s; BABYLON_COMPATIBLE((u, 1)) };
struct Agg { uint64_t a; int32_t b; bool c; Inner in; BABYLON_COMPATIBLE((c, 3)(in, 5)) };
#else                  // everything
struct Inner { uint32_t u; int64_t s; BABYLON_COMPATIBLE((u, 1)(s, 2)) };
struct Agg { uint64_t a; int32_t b; bool c; Inner in; BABYLON_COMPATIBLE((a, 1)(b, 2)(c, 3)(in, 5)) };
#endif
struct ArrOut : public google::protobuf::io::ZeroCopyOutputStream {
  uint8_t* data; int size; int pos {0};
  ArrOut(uint8_t* d, int n) : data(d), size(n) {}
  bool Next(void** d, int* n) override { if (pos < size) { *d = data + pos; *n = size - pos; pos = size; return true; } return false; }
  void BackUp(int count) override { pos -= count; }
  int64_t ByteCount() const override { return pos; }
};
// a ZeroCopyInputStream handing out the bytes in chunks of `chunk` (the stream-backed presentation of an input)
struct ArrIn : public google::protobuf::io::ZeroCopyInputStream {
  const uint8_t* data; int size; int chunk; int pos {0}; int last {0};
  ArrIn(const uint8_t* d, int n, int c) : data(d), size(n), chunk(c) {}
  bool Next(const void** d, int* n) override { if (pos >= size) { last = 0; return false; } int k = size - pos < chunk ? size - pos : chunk; *d = data + pos; *n = k; pos += k; last = k; return true; }
  void BackUp(int count) override { pos -= count; last = 0; }
  bool Skip(int count) override { last = 0; if (count > size - pos) { pos = size; return false; } pos += count; return true; }
  int64_t ByteCount() const override { return pos; }
};
#ifndef VF_INLEN
#define VF_INLEN 6
#endif
uint8_t out[96]; uint8_t out2[96]; uint8_t* in;
extern "C" void vf_init() { in = new uint8_t[VF_INLEN]; }
static size_t ref_varint(uint8_t* p, uint64_t v) { size_t n = 0; while (v >= 0x80) { p[n++] = (uint8_t)(v | 0x80); v >>= 7; } p[n++] = (uint8_t)v; return n; }
static bool same(const Agg& x, const Agg& y) {
#if VF_SHAPE == 0
  return x.a == y.a;
#elif VF_SHAPE == 1
  return x.b == y.b && x.c == y.c;
#elif VF_SHAPE == 2
  return x.c == y.c && x.in.u == y.in.u;
#else
  return x.a == y.a && x.b == y.b && x.c == y.c && x.in.u == y.in.u && x.in.s == y.in.s;
#endif
}
static int ser(const Agg& x, uint8_t* buf, int cap) {
  size_t n = Serialization::calculate_serialized_size(x);
  if ((int)n > cap) return -1;
  { ArrOut ao(buf, (int)n); CodedOutputStream os(&ao); bool ok = Serialization::serialize_to_coded_stream_with_cached_size(x, os); vf_check(ok, 1); os.Trim(); vf_check(!os.HadError(), 1); vf_check(ao.ByteCount() == (int64_t)n, 2); }
  return (int)n;
}
#ifdef VF_UNKNOWN
// unknown fields (any wire type, arbitrary payload) placed before the known field are skipped; absent fields keep defaults
uint8_t inbuf[64];
extern "C" void vf_thread_0() {
  Agg x; x.a = vf_nondet64(); x.b = (int32_t)vf_nondet64(); x.c = vf_nondet64() & 1; x.in.u = (uint32_t)vf_nondet64(); x.in.s = (int64_t)vf_nondet64();
  int n = ser(x, out, 40); vf_assume(n >= 0);
  uint64_t wt = vf_nondet64(); vf_assume(wt == 0 || wt == 1 || wt == 2 || wt == 5);
  int k = 0; inbuf[k++] = (uint8_t)((7 << 3) | wt);
  if (wt == 0) { inbuf[k++] = (uint8_t)(vf_nondet64() & 0x7f); }
  else if (wt == 1) { for (int i = 0; i < 8; ++i) inbuf[k++] = (uint8_t)vf_nondet64(); }
  else if (wt == 5) { for (int i = 0; i < 4; ++i) inbuf[k++] = (uint8_t)vf_nondet64(); }
  else { inbuf[k++] = 2; inbuf[k++] = (uint8_t)vf_nondet64(); inbuf[k++] = (uint8_t)vf_nondet64(); }
  for (int i = 0; i < n && i < 40; ++i) inbuf[k + i] = out[i];
  Agg y; y.a = 0; y.b = 0; y.c = false; y.in.u = 0; y.in.s = 0;
  { CodedInputStream is(inbuf, k + n); bool ok = Serialization::parse_from_coded_stream(is, y); vf_check(ok, 7); }
  vf_check(same(x, y), 7);
}
#elif defined(VF_ROUNDTRIP)
extern "C" void vf_thread_0() {
  Agg x; x.a = vf_nondet64(); x.b = (int32_t)vf_nondet64(); x.c = vf_nondet64() & 1; x.in.u = (uint32_t)vf_nondet64(); x.in.s = (int64_t)vf_nondet64();
  int n = ser(x, out, 96); vf_check(n >= 0, 2);                              // predicted size == bytes produced (checked in ser)
  // wire compatibility: field 1 (uint64 a) is the protobuf varint encoding, absent when default
#if VF_SHAPE == 0 || VF_SHAPE == 3
  if (x.a != 0) { uint8_t ref[12]; ref[0] = 0x08; size_t k = 1 + ref_varint(ref + 1, x.a); vf_check((size_t)n >= k, 3); for (size_t i = 0; i < k && i < 11; ++i) vf_check(out[i] == ref[i], 3); }
#endif
  Agg y; y.a = 0; y.b = 0; y.c = false; y.in.u = 0; y.in.s = 0;       // a fresh object
  { CodedInputStream is(out, n); bool ok = Serialization::parse_from_coded_stream(is, y); vf_check(ok, 4); }
  vf_check(same(x, y), 4);                                                   // round trip (absent fields read back as defaults)
#ifdef VF_STREAM
  // the same bytes presented through a ZeroCopyInputStream in chunks of 1..VF_STREAM bytes (symbolic), without and with an
  // enclosing limit: every presentation of the same bytes parses to the same value
  uint64_t chunk = vf_nondet64(); vf_assume(chunk >= 1 && chunk <= VF_STREAM);
  uint64_t limited = vf_nondet64() & 1;
  Agg z; z.a = 0; z.b = 0; z.c = false; z.in.u = 0; z.in.s = 0;
  { ArrIn ai(out, n, (int)chunk); CodedInputStream is(&ai);
    CodedInputStream::Limit lim = 0; if (limited) lim = is.PushLimit(n);
    bool ok = Serialization::parse_from_coded_stream(is, z); vf_check(ok, 8);
    if (limited) is.PopLimit(lim); }
  vf_check(same(x, z), 8);
#endif
}
#else
extern "C" void vf_thread_0() {
  uint64_t len = vf_nondet64(); vf_assume(len <= VF_INLEN);
  for (int i = 0; i < VF_INLEN; ++i) in[i] = (uint8_t)vf_nondet64();
  const uint8_t* input = in + (VF_INLEN - len);     // the input ends exactly where the allocation ends: any read past it is flagged
  Agg y; y.a = 0; y.b = 0; y.c = false; y.in.u = 0; y.in.s = 0;
  bool ok;
  { CodedInputStream is(input, (int)len); ok = Serialization::parse_from_coded_stream(is, y); }       // must terminate, stay in bounds
  if (ok) {                                                                  // success => canonical re-encoding parses back to itself
    int n = ser(y, out, 96); vf_check(n >= 0, 5);
    Agg z; z.a = 0; z.b = 0; z.c = false; z.in.u = 0; z.in.s = 0;
    { CodedInputStream is(out, n); bool ok2 = Serialization::parse_from_coded_stream(is, z); vf_check(ok2, 6); }
    vf_check(same(y, z), 6);
  }
}
#endif
