// Model of the OUT-OF-LINE parts of protobuf 3.21 coded streams (libprotobuf.so has no IR): flat-array-backed streams and
// (third session) ZeroCopyInputStream-backed ones (Refresh / limits / BackUp as in coded_stream.cc).
// The inline fast paths (ReadVarint*, ReadTag, WriteVarint*ToArray, EnsureSpace, ...) are the real header code.
// Part of the trusted base; every run replays solver witnesses natively against the real libprotobuf to validate it.
#include <google/protobuf/io/coded_stream.h>
#include <google/protobuf/io/zero_copy_stream.h>
#include <string.h>
namespace google { namespace protobuf { namespace io {
std::atomic<bool> CodedOutputStream::default_serialization_deterministic_{false};     // libprotobuf's initial values
int CodedInputStream::default_recursion_limit_ = 100;
// ---------------------------------------------------------------- input (array-backed: input_ == nullptr)
CodedInputStream::~CodedInputStream() { if (input_ != nullptr) BackUpInputToCurrentPosition(); }
// ---------------------------------------------------------------- stream-backed input (input_ != nullptr), after protobuf 3.21 coded_stream.cc
void CodedInputStream::BackUpInputToCurrentPosition() {
  int backup_bytes = BufferSize() + buffer_size_after_limit_ + overflow_bytes_;
  if (backup_bytes > 0) {
    input_->BackUp(backup_bytes);
    total_bytes_read_ -= BufferSize() + buffer_size_after_limit_;
    buffer_end_ = buffer_; buffer_size_after_limit_ = 0; overflow_bytes_ = 0;
  }
}
bool CodedInputStream::Refresh() {
  if (input_ == nullptr) return false;              // flat array: nothing to refill from
  if (buffer_size_after_limit_ > 0 || overflow_bytes_ > 0 || total_bytes_read_ == current_limit_) return false;       // hit a limit
  const void* void_buffer; int buffer_size; bool got;
  do { got = input_->Next(&void_buffer, &buffer_size); } while (got && buffer_size == 0);       // NextNonEmpty
  if (got) {
    buffer_ = reinterpret_cast<const uint8_t*>(void_buffer);
    buffer_end_ = buffer_ + buffer_size;
    if (total_bytes_read_ <= INT_MAX - buffer_size) total_bytes_read_ += buffer_size;
    else { overflow_bytes_ = total_bytes_read_ - (INT_MAX - buffer_size); buffer_end_ -= overflow_bytes_; total_bytes_read_ = INT_MAX; }
    RecomputeBufferLimits();
    return true;
  }
  buffer_ = nullptr; buffer_end_ = nullptr;
  return false;
}
std::pair<uint64_t, bool> CodedInputStream::ReadVarint64Fallback() {
  uint64_t result = 0; int shift = 0;
  for (int i = 0; i < 10; ++i) {
    while (buffer_ == buffer_end_) if (!Refresh()) return std::make_pair((uint64_t)0, false);       // Refresh() fails on a flat array
    uint8_t b = *buffer_++;
    result |= (uint64_t)(b & 0x7f) << shift; shift += 7;
    if (!(b & 0x80)) return std::make_pair(result, true);
  }
  return std::make_pair((uint64_t)0, false);                                      // longer than 10 bytes: corrupt
}
int64_t CodedInputStream::ReadVarint32Fallback(uint32_t first_byte_or_zero) {
  (void)first_byte_or_zero;
  uint64_t result = 0; int shift = 0;
  for (int i = 0; i < 10; ++i) {
    while (buffer_ == buffer_end_) if (!Refresh()) return -1;
    uint8_t b = *buffer_++;
    if (shift < 64) result |= (uint64_t)(b & 0x7f) << shift; shift += 7;
    if (!(b & 0x80)) return (int64_t)(uint32_t)result;
  }
  return -1;
}
uint32_t CodedInputStream::ReadTagFallback(uint32_t first_byte_or_zero) {
  (void)first_byte_or_zero;
  if (buffer_ == buffer_end_) {
    if (input_ == nullptr) {
      // end of the array (or of the current limit): a legitimate message end
      legitimate_message_end_ = true;
      return 0;
    }
    // stream-backed (ReadTagFallback + ReadTagSlow of coded_stream.cc)
    if ((buffer_size_after_limit_ > 0 || total_bytes_read_ == current_limit_) && total_bytes_read_ - buffer_size_after_limit_ < total_bytes_limit_) {
      legitimate_message_end_ = true; return 0;
    }
    if (!Refresh()) {
      int current_position = total_bytes_read_ - buffer_size_after_limit_;
      if (current_position >= total_bytes_limit_) legitimate_message_end_ = current_limit_ == total_bytes_limit_;
      else legitimate_message_end_ = true;
      return 0;
    }
  }
  uint64_t result = 0; int shift = 0;
  for (int i = 0; i < 10; ++i) {
    while (buffer_ == buffer_end_) if (!Refresh()) return 0;
    uint8_t b = *buffer_++;
    if (shift < 64) result |= (uint64_t)(b & 0x7f) << shift; shift += 7;
    if (!(b & 0x80)) return (uint32_t)result;
  }
  return 0;
}
bool CodedInputStream::SkipFallback(int count, int original_buffer_size) {
  if (input_ == nullptr) {
    // inline Skip() comes here only when fewer than `count` bytes are left in the buffer: a flat array cannot refill
    buffer_ = buffer_end_;
    return false;
  }
  if (buffer_size_after_limit_ > 0) { Advance(original_buffer_size); return false; }      // hit a limit inside this buffer
  count -= original_buffer_size;
  buffer_ = nullptr; buffer_end_ = buffer_;
  int closest_limit = current_limit_ < total_bytes_limit_ ? current_limit_ : total_bytes_limit_;
  int bytes_until_limit = closest_limit - total_bytes_read_;
  if (bytes_until_limit < count) {
    if (bytes_until_limit > 0) { total_bytes_read_ = closest_limit; input_->Skip(bytes_until_limit); }
    return false;
  }
  if (!input_->Skip(count)) { total_bytes_read_ = (int)input_->ByteCount(); return false; }
  total_bytes_read_ += count;
  return true;
}
bool CodedInputStream::GetDirectBufferPointer(const void** data, int* size) {
  if (buffer_ == buffer_end_ && !Refresh()) return false;        // BufferSize() == 0 && !Refresh(): a flat array (or its limit) is exhausted
  *data = buffer_; *size = (int)(buffer_end_ - buffer_);
  return true;
}
CodedInputStream::Limit CodedInputStream::PushLimit(int byte_limit) {
  int current_position = CurrentPosition();
  Limit old_limit = current_limit_;
  if (byte_limit >= 0 && byte_limit <= INT_MAX - current_position && byte_limit < current_limit_ - current_position) {
    current_limit_ = current_position + byte_limit;
    RecomputeBufferLimits();
  }
  return old_limit;
}
void CodedInputStream::PopLimit(Limit limit) {
  current_limit_ = limit;
  RecomputeBufferLimits();
  legitimate_message_end_ = false;
}
void CodedInputStream::RecomputeBufferLimits() {
  buffer_end_ += buffer_size_after_limit_;
  int closest_limit = current_limit_ < total_bytes_limit_ ? current_limit_ : total_bytes_limit_;
  if (closest_limit < total_bytes_read_) {
    buffer_size_after_limit_ = total_bytes_read_ - closest_limit;
    buffer_end_ -= buffer_size_after_limit_;
  } else {
    buffer_size_after_limit_ = 0;
  }
}
std::pair<CodedInputStream::Limit, int> CodedInputStream::IncrementRecursionDepthAndPushLimit(int byte_limit) {
  return std::make_pair(PushLimit(byte_limit), --recursion_budget_);
}
bool CodedInputStream::DecrementRecursionDepthAndPopLimit(Limit limit) {
  bool result = ConsumedEntireMessage();
  PopLimit(limit);
  ++recursion_budget_;
  return result;
}
int CodedInputStream::BytesUntilLimit() const {
  if (current_limit_ == INT_MAX) return -1;
  int current_position = CurrentPosition();
  return current_limit_ - current_position;
}
bool CodedInputStream::ReadRaw(void* buffer, int size) {
  if (size < 0) return false;
  if (input_ == nullptr) {
    if (BufferSize() < size) { buffer_ = buffer_end_; return false; }
    memcpy(buffer, buffer_, size); buffer_ += size; return true;
  }
  int current_buffer_size;                          // ReadRawFallback
  while ((current_buffer_size = BufferSize()) < size) {
    memcpy(buffer, buffer_, current_buffer_size);
    buffer = reinterpret_cast<uint8_t*>(buffer) + current_buffer_size;
    size -= current_buffer_size; Advance(current_buffer_size);
    if (!Refresh()) return false;
  }
  memcpy(buffer, buffer_, size); Advance(size);
  return true;
}
// ---------------------------------------------------------------- output
uint8_t* EpsCopyOutputStream::Next() {
  if (stream_ == nullptr) return Error();
  if (buffer_end_) {
    memcpy(buffer_end_, buffer_, end_ - buffer_);
    uint8_t* ptr; int size;
    do {
      void* data;
      if (!stream_->Next(&data, &size)) return Error();
      ptr = static_cast<uint8_t*>(data);
    } while (size == 0);
    if (size > kSlopBytes) {
      memcpy(ptr, end_, kSlopBytes);
      end_ = ptr + size - kSlopBytes;
      buffer_end_ = nullptr;
      return ptr;
    } else {
      memmove(buffer_, end_, kSlopBytes);
      buffer_end_ = ptr;
      end_ = buffer_ + size;
      return buffer_;
    }
  } else {
    memcpy(buffer_, end_, kSlopBytes);
    buffer_end_ = end_;
    end_ = buffer_ + kSlopBytes;
    return buffer_;
  }
}
uint8_t* EpsCopyOutputStream::EnsureSpaceFallback(uint8_t* ptr) {
  do {
    if (had_error_) return buffer_;
    int overrun = (int)(ptr - end_);
    ptr = Next() + overrun;
  } while (ptr >= end_);
  return ptr;
}
int EpsCopyOutputStream::Flush(uint8_t* ptr) {
  while (buffer_end_ && ptr > end_) {
    int overrun = (int)(ptr - end_);
    ptr = Next() + overrun;
    if (had_error_) return 0;
  }
  int s;
  if (buffer_end_) {
    memcpy(buffer_end_, buffer_, ptr - buffer_);
    buffer_end_ += ptr - buffer_;
    s = (int)(end_ - ptr);
  } else {
    s = (int)(end_ + kSlopBytes - ptr);
    buffer_end_ = ptr;
  }
  return s;
}
uint8_t* EpsCopyOutputStream::Trim(uint8_t* ptr) {
  if (had_error_) return ptr;
  int s = Flush(ptr);
  if (s) stream_->BackUp(s);
  buffer_end_ = end_ = buffer_;
  return buffer_;
}
uint8_t* EpsCopyOutputStream::FlushAndResetBuffer(uint8_t* ptr) {
  if (had_error_) return buffer_;
  int s = Flush(ptr);
  if (had_error_) return buffer_;
  return SetInitialBuffer(buffer_end_, s);
}
CodedOutputStream::~CodedOutputStream() { Trim(); }

bool ZeroCopyOutputStream::WriteAliasedRaw(const void*, int) { return false; }
}}}
