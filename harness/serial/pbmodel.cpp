// Model of the OUT-OF-LINE parts of protobuf 3.21 coded streams (libprotobuf.so has no IR) for flat-array-backed streams.
// The inline fast paths (ReadVarint*, ReadTag, WriteVarint*ToArray, EnsureSpace, ...) are the real header code.
// Part of the trusted base; every run replays solver witnesses natively against the real libprotobuf to validate it.
#include <google/protobuf/io/coded_stream.h>
#include <google/protobuf/io/zero_copy_stream.h>
#include <string.h>
namespace google { namespace protobuf { namespace io {
std::atomic<bool> CodedOutputStream::default_serialization_deterministic_{false};     // libprotobuf's initial values
int CodedInputStream::default_recursion_limit_ = 100;
// ---------------------------------------------------------------- input (array-backed: input_ == nullptr)
CodedInputStream::~CodedInputStream() {}
std::pair<uint64_t, bool> CodedInputStream::ReadVarint64Fallback() {
  uint64_t result = 0; int shift = 0;
  for (int i = 0; i < 10; ++i) {
    if (buffer_ == buffer_end_) return std::make_pair((uint64_t)0, false);       // Refresh() fails on a flat array
    uint8_t b = *buffer_++;
    result |= (uint64_t)(b & 0x7f) << shift; shift += 7;
    if (!(b & 0x80)) return std::make_pair(result, true);
  }
  return std::make_pair((uint64_t)0, false);                                      // longer than 10 bytes: corrupt
}
int64_t CodedInputStream::ReadVarint32Fallback(uint32_t first_byte_or_zero) {
  (void)first_byte_or_zero;
  uint64_t result = 0; int shift = 0;
  for (int i = 0; i < 10; ++i) {
    if (buffer_ == buffer_end_) return -1;
    uint8_t b = *buffer_++;
    if (shift < 64) result |= (uint64_t)(b & 0x7f) << shift; shift += 7;
    if (!(b & 0x80)) return (int64_t)(uint32_t)result;
  }
  return -1;
}
uint32_t CodedInputStream::ReadTagFallback(uint32_t first_byte_or_zero) {
  (void)first_byte_or_zero;
  if (buffer_ == buffer_end_) {
    // end of the array (or of the current limit): a legitimate message end
    if (buffer_size_after_limit_ > 0 || total_bytes_read_ == current_limit_ || true) legitimate_message_end_ = true;
    return 0;
  }
  uint64_t result = 0; int shift = 0;
  for (int i = 0; i < 10; ++i) {
    if (buffer_ == buffer_end_) return 0;
    uint8_t b = *buffer_++;
    if (shift < 64) result |= (uint64_t)(b & 0x7f) << shift; shift += 7;
    if (!(b & 0x80)) return (uint32_t)result;
  }
  return 0;
}
bool CodedInputStream::SkipFallback(int count, int original_buffer_size) {
  (void)count; (void)original_buffer_size;
  // inline Skip() comes here only when fewer than `count` bytes are left in the buffer: a flat array cannot refill
  buffer_ = buffer_end_;
  return false;
}
bool CodedInputStream::GetDirectBufferPointer(const void** data, int* size) {
  if (buffer_ == buffer_end_) return false;        // BufferSize() == 0 && !Refresh(): a flat array (or its limit) is exhausted
  *data = buffer_; *size = (int)(buffer_end_ - buffer_);
  return true;
}
CodedInputStream::Limit CodedInputStream::PushLimit(int byte_limit) {
  int current_position = CurrentPosition();
  Limit old_limit = current_limit_;
  if (byte_limit >= 0 && byte_limit <= INT_MAX - current_position && byte_limit < current_limit_ - current_position) {
    current_limit_ = current_position + byte_limit;
    RecomputeBufferLimits();
  }
  return old_limit;
}
void CodedInputStream::PopLimit(Limit limit) {
  current_limit_ = limit;
  RecomputeBufferLimits();
  legitimate_message_end_ = false;
}
void CodedInputStream::RecomputeBufferLimits() {
  buffer_end_ += buffer_size_after_limit_;
  int closest_limit = current_limit_ < total_bytes_limit_ ? current_limit_ : total_bytes_limit_;
  if (closest_limit < total_bytes_read_) {
    buffer_size_after_limit_ = total_bytes_read_ - closest_limit;
    buffer_end_ -= buffer_size_after_limit_;
  } else {
    buffer_size_after_limit_ = 0;
  }
}
std::pair<CodedInputStream::Limit, int> CodedInputStream::IncrementRecursionDepthAndPushLimit(int byte_limit) {
  return std::make_pair(PushLimit(byte_limit), --recursion_budget_);
}
bool CodedInputStream::DecrementRecursionDepthAndPopLimit(Limit limit) {
  bool result = ConsumedEntireMessage();
  PopLimit(limit);
  ++recursion_budget_;
  return result;
}
int CodedInputStream::BytesUntilLimit() const {
  if (current_limit_ == INT_MAX) return -1;
  int current_position = CurrentPosition();
  return current_limit_ - current_position;
}
bool CodedInputStream::ReadRaw(void* buffer, int size) {
  if (size < 0 || BufferSize() < size) { buffer_ = buffer_end_; return false; }
  memcpy(buffer, buffer_, size); buffer_ += size; return true;
}
// ---------------------------------------------------------------- output
uint8_t* EpsCopyOutputStream::Next() {
  if (stream_ == nullptr) return Error();
  if (buffer_end_) {
    memcpy(buffer_end_, buffer_, end_ - buffer_);
    uint8_t* ptr; int size;
    do {
      void* data;
      if (!stream_->Next(&data, &size)) return Error();
      ptr = static_cast<uint8_t*>(data);
    } while (size == 0);
    if (size > kSlopBytes) {
      memcpy(ptr, end_, kSlopBytes);
      end_ = ptr + size - kSlopBytes;
      buffer_end_ = nullptr;
      return ptr;
    } else {
      memmove(buffer_, end_, kSlopBytes);
      buffer_end_ = ptr;
      end_ = buffer_ + size;
      return buffer_;
    }
  } else {
    memcpy(buffer_, end_, kSlopBytes);
    buffer_end_ = end_;
    end_ = buffer_ + kSlopBytes;
    return buffer_;
  }
}
uint8_t* EpsCopyOutputStream::EnsureSpaceFallback(uint8_t* ptr) {
  do {
    if (had_error_) return buffer_;
    int overrun = (int)(ptr - end_);
    ptr = Next() + overrun;
  } while (ptr >= end_);
  return ptr;
}
int EpsCopyOutputStream::Flush(uint8_t* ptr) {
  while (buffer_end_ && ptr > end_) {
    int overrun = (int)(ptr - end_);
    ptr = Next() + overrun;
    if (had_error_) return 0;
  }
  int s;
  if (buffer_end_) {
    memcpy(buffer_end_, buffer_, ptr - buffer_);
    buffer_end_ += ptr - buffer_;
    s = (int)(end_ - ptr);
  } else {
    s = (int)(end_ + kSlopBytes - ptr);
    buffer_end_ = ptr;
  }
  return s;
}
uint8_t* EpsCopyOutputStream::Trim(uint8_t* ptr) {
  if (had_error_) return ptr;
  int s = Flush(ptr);
  if (s) stream_->BackUp(s);
  buffer_end_ = end_ = buffer_;
  return buffer_;
}
uint8_t* EpsCopyOutputStream::FlushAndResetBuffer(uint8_t* ptr) {
  if (had_error_) return buffer_;
  int s = Flush(ptr);
  if (had_error_) return buffer_;
  return SetInitialBuffer(buffer_end_, s);
}
CodedOutputStream::~CodedOutputStream() { Trim(); }

bool ZeroCopyOutputStream::WriteAliasedRaw(const void*, int) { return false; }
}}}
