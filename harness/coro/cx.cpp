// C13 (b), concurrent variant: see cx_common.h
#define VF_CONC 1
#include "cx_common.h"
#define BODY(n) extern "C" void vf_thread_##n() { VF_T##n; }
#ifdef VF_T0
BODY(0)
#endif
#ifdef VF_T1
BODY(1)
#endif
extern "C" void vf_final() { VF_FINAL; }
