// C13 (b): REAL C++20 coroutines (clang's coroutine lowering at -O1 is part of the IR under test): a babylon Task co_awaits
// a Cancellable<Future> / a Future / another Task on a harness executor; the inner future is fulfilled and the cancellation
// token fired either sequentially in a symbolic order (vf_seq mode) or concurrently from two threads.
// Oracle: the awaiting coroutine is resumed exactly once per suspension, on its executor, gets the value iff the
// cancellation did not win, the losing side reports false, and the DepositBox slot is given back (no leaked bookkeeping).
#include "babylon/coroutine/cancelable.h"
#include "babylon/coroutine/task.h"
#include "babylon/future.h"
#include "vf.h"
#pragma once
using namespace babylon;
using namespace babylon::coroutine;

uint64_t on_exec, resumed, has_value, value, finished, cancel_ret, inner_ran, in_exec_at_resume;
uint64_t flag[4];
static uint64_t exec_depth;
struct HX : public BasicExecutor {
  int invoke(MoveOnlyFunction<void(void)>&& f) noexcept override {
    __atomic_fetch_add(&on_exec, 1, __ATOMIC_RELAXED);
    RunnerScope scope {*this};
    f();
    return 0;
  }
};
HX hx;
using Fut = Future<uint64_t, VS>;
using Prom = babylon::Promise<uint64_t, VS>;
Prom* prom;
BasicCancellable::Cancellation token;
uint64_t have_token;

#ifndef VF_KIND
#define VF_KIND 0
#endif
#if VF_KIND == 0
// outer co_awaits Cancellable<Future>
Task<uint64_t> inner(Fut f) { uint64_t v = co_await ::std::move(f); inner_ran += 1; co_return v; }
Task<void> outer(Fut f) {
  auto r = co_await Cancellable<Task<uint64_t>>(inner(::std::move(f))).on_suspend([](BasicCancellable::Cancellation&& c) { token = c; have_token = 1; });
  __atomic_fetch_add(&resumed, 1, __ATOMIC_RELAXED);
  in_exec_at_resume = hx.is_running_in() ? 1 : 0;
  has_value = r ? 1 : 0;
  if (r) value = *r;
  finished = 1;
}
#elif VF_KIND == 1
// outer co_awaits a Future directly
Task<void> outer(Fut f) {
  uint64_t v = co_await ::std::move(f);
  __atomic_fetch_add(&resumed, 1, __ATOMIC_RELAXED);
  in_exec_at_resume = hx.is_running_in() ? 1 : 0;
  has_value = 1; value = v; finished = 1;
}
#else
// outer co_awaits an inner Task that co_awaits the future
Task<uint64_t> inner(Fut f) { uint64_t v = co_await ::std::move(f); inner_ran += 1; co_return v + 1; }
Task<void> outer(Fut f) {
  uint64_t v = co_await inner(::std::move(f));
  __atomic_fetch_add(&resumed, 1, __ATOMIC_RELAXED);
  in_exec_at_resume = hx.is_running_in() ? 1 : 0;
  has_value = 1; value = v - 1; finished = 1;
}
#endif

static void start() {
  prom = new Prom;
  auto t = outer(prom->get_future());
  t.set_executor(hx);
  auto h = t.release();
  h.promise().resume(h);     // what Executor::execute does for a coroutine task: send it to its executor
}
#define SIGNAL(i) __atomic_store_n(&flag[i], 1, __ATOMIC_RELEASE)
#define AWAIT(i) vf_assume(__atomic_load_n(&flag[i], __ATOMIC_ACQUIRE) == 1)
#define SET(v) do { prom->set_value((uint64_t)(v)); } while (0)
#define CANCEL() do { cancel_ret = token() ? 1 : 2; } while (0)

extern "C" void vf_init() {
  (void)DepositBox<BasicCancellable*>::instance();
#ifdef VF_CONC
  start();
#endif
}
