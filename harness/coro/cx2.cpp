// C13 (c): two REAL coroutines each suspended in co_await Cancellable<Task>: the cancellation (or completion) of wait A races
// with the START of wait B on another thread (B's emplace may recycle A's deposit-box slot the instant A's winner gives it
// back). Oracle: A is resumed exactly once with the outcome its own winner decided, B is not resumed by anything aimed at A and
// is later resumed exactly once with its own value.
#include "babylon/coroutine/cancelable.h"
#include "babylon/coroutine/task.h"
#include "babylon/future.h"
#include "vf.h"
using namespace babylon;
using namespace babylon::coroutine;
uint64_t on_exec, resumed[2], has_value[2], value[2], finished[2], cancel_ret[2], in_exec_at_resume[2], have_token[2];
struct HX : public BasicExecutor {
  int invoke(MoveOnlyFunction<void(void)>&& f) noexcept override {
    __atomic_fetch_add(&on_exec, 1, __ATOMIC_RELAXED);
    RunnerScope scope {*this};
    f();
    return 0;
  }
};
HX hx;
using Fut = Future<uint64_t, VS>;
using Prom = babylon::Promise<uint64_t, VS>;
Prom* prom[2];
BasicCancellable::Cancellation token[2];
Task<uint64_t> inner(Fut f) { uint64_t v = co_await ::std::move(f); co_return v; }
Task<void> outer(Fut f, uint64_t i) {
  auto r = co_await Cancellable<Task<uint64_t>>(inner(::std::move(f))).on_suspend([i](BasicCancellable::Cancellation&& c) { token[i & 1] = c; have_token[i & 1] = 1; });
  __atomic_fetch_add(&resumed[i & 1], 1, __ATOMIC_RELAXED);
  in_exec_at_resume[i & 1] = hx.is_running_in() ? 1 : 0;
  has_value[i & 1] = r ? 1 : 0;
  if (r) value[i & 1] = *r;
  finished[i & 1] = 1;
}
static void start(uint64_t i) {
  prom[i] = new Prom;
  auto t = outer(prom[i]->get_future(), i);
  t.set_executor(hx);
  auto h = t.release();
  h.promise().resume(h);
}
#define SET(i, v) do { prom[i]->set_value((uint64_t)(v)); } while (0)
#define CANCEL(i) do { cancel_ret[i] = token[i]() ? 1 : 2; } while (0)
#define START(i) start(i)
extern "C" void vf_init() {
  auto& box = DepositBox<BasicCancellable*>::instance();
  { auto a = box.emplace(nullptr); auto b = box.emplace(nullptr); auto c = box.emplace(nullptr); box.take(a); box.take(b); box.take(c); }   // three slots exist, all free
  start(0);
}
#define BODY(n) extern "C" void vf_thread_##n() { VF_T##n; }
BODY(0)
BODY(1)
extern "C" void vf_final() { VF_FINAL; }
