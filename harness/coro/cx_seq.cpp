// C13 (b), sequential variant (symbolic order of set_value / cancel): see cx_common.h
#include "cx_common.h"
// sequential: symbolic order of set_value / cancel, optional second cancel
extern "C" void vf_thread_0() {
  start();
  vf_check(resumed == 0 && on_exec == 1, 1);                 // suspended on the future, ran on the executor
#if VF_KIND == 0
  vf_check(have_token == 1, 1);
  uint64_t order = vf_nondet64() & 3;
  if (order == 0) { SET(42); CANCEL(); vf_check(cancel_ret == 2, 2); vf_check(has_value == 1 && value == 42, 3); }
  else if (order == 1) { CANCEL(); vf_check(cancel_ret == 1, 2); vf_check(resumed == 1 && has_value == 0, 3); SET(42); }
  else if (order == 2) { CANCEL(); CANCEL(); vf_check(cancel_ret == 2, 2); vf_check(has_value == 0, 3); SET(42); }
  else { SET(42); vf_check(resumed == 1 && has_value == 1 && value == 42, 3); }
  vf_check(resumed == 1 && finished == 1 && in_exec_at_resume == 1, 4);
  // bookkeeping: the deposit box slot was given back (a fresh emplace reuses it instead of minting a new one)
  { auto& box = DepositBox<BasicCancellable*>::instance(); auto id = box.emplace(nullptr); vf_check(id.value == 0, 5); }
#else
  SET(42);
  vf_check(resumed == 1 && finished == 1 && has_value == 1 && value == 42 && in_exec_at_resume == 1, 4);
#if VF_KIND == 2
  vf_check(inner_ran == 1, 4);
#endif
#endif
}
