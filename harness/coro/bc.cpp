// C13 (d): BasicCancellable (the bookkeeping behind co_await Cancellable<A>) with hand-made coroutine frames: the winner of
// wait A (cancel or finish) races with the START of wait B (emplace) on another thread - B may recycle A's deposit-box slot the
// instant A's winner gives it back - and with a second cancel of A. Oracle: A's awaiter is resumed exactly once by its own
// winner, exactly one of two racing triggers wins, nothing aimed at A touches B, B's id still works afterwards.
#include "babylon/coroutine/cancelable.h"
#include "vf.h"
using namespace babylon;
using namespace babylon::coroutine;
struct FakeP : public BasicPromise {};
uint64_t resumed[2]; uint64_t on_exec; uint64_t ret[4];
struct HX : public BasicExecutor { int invoke(MoveOnlyFunction<void(void)>&& f) noexcept override { __atomic_fetch_add(&on_exec, 1, __ATOMIC_RELAXED); f(); return 0; } };
HX hx;
struct Frame { void (*resume)(void*); void (*destroy)(void*); FakeP promise; uint64_t idx; };
static void do_resume(void* f) { Frame* fr = (Frame*)f; __atomic_fetch_add(&resumed[fr->idx & 1], 1, __ATOMIC_RELAXED); }
static void do_destroy(void*) {}
Frame frames[2]; FakeP proxy[2]; BasicCancellable* bc[2]; VersionedValue<uint32_t> id[2];
static inline void start_wait(int i) {
  frames[i].resume = do_resume; frames[i].destroy = do_destroy; frames[i].idx = i; frames[i].promise.set_executor(hx);
  bc[i]->set_proxy_promise(&proxy[i]);
  id[i] = bc[i]->emplace(std::coroutine_handle<FakeP>::from_address(&frames[i]));
}
#define CANCEL(i) do { ret[T] = BasicCancellable::cancel(id[i]) ? 1 : 2; } while (0)
#define FINISH(i) do { ret[T] = BasicCancellable::resume(id[i]) ? 1 : 2; } while (0)
#define START(i) start_wait(i)
#define BODY(n) extern "C" void vf_thread_##n() { constexpr int T = n; (void)T; VF_T##n; }
extern "C" void vf_init() {
  auto& box = DepositBox<BasicCancellable*>::instance();
  { auto a = box.emplace(nullptr); auto b = box.emplace(nullptr); auto c = box.emplace(nullptr); box.take(a); box.take(b); box.take(c); }   // three slots exist, all free
  bc[0] = new BasicCancellable; bc[1] = new BasicCancellable;
  start_wait(0);
}
BODY(0)
BODY(1)
extern "C" void vf_final() { constexpr int T = 2; (void)T; VF_FINAL; }
