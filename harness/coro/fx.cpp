// C13 (a): coroutine::Futex wake_one / wake_all / cancel / new waiters. Waiters are registered by the real
// await_suspend on hand-made coroutine frames whose resume function records the resumption.
#include "babylon/coroutine/futex.h"
#include "vf.h"
using namespace babylon::coroutine;

struct FakeP : public BasicPromise {};
uint64_t resumed[4]; uint64_t on_exec;
struct HX : public babylon::BasicExecutor { int invoke(babylon::MoveOnlyFunction<void(void)>&& f) noexcept override { __atomic_fetch_add(&on_exec, 1, __ATOMIC_RELAXED); f(); return 0; } };
HX hx;
struct Frame { void (*resume)(void*); void (*destroy)(void*); FakeP promise; uint64_t idx; };
static void do_resume(void* f) { Frame* fr = (Frame*)f; __atomic_fetch_add(&resumed[fr->idx & 3], 1, __ATOMIC_RELAXED); }
static void do_destroy(void*) {}
Frame frames[4]; Futex* fx; Futex::Cancellation cancels[4]; uint64_t suspended[4]; uint64_t flag[4]; uint64_t ret[4];
static inline void make_waiter(int i, uint64_t expected) {
  frames[i].resume = do_resume; frames[i].destroy = do_destroy; frames[i].idx = i; frames[i].promise.set_executor(hx);
  auto h = std::coroutine_handle<FakeP>::from_address(&frames[i]);
  auto aw = fx->wait(expected);
  aw.on_suspend([i](Futex::Cancellation&& c) { cancels[i] = c; });
  suspended[i] = aw.await_suspend(h) ? 1 : 0;
}
#define SIGNAL(i) __atomic_store_n(&flag[i], 1, __ATOMIC_RELEASE)
#define AWAIT(i) vf_assume(__atomic_load_n(&flag[i], __ATOMIC_ACQUIRE) == 1)
#define WAKE_ONE() do { ret[T] = fx->wake_one(); } while (0)
#define WAKE_ALL() do { ret[T] = fx->wake_all(); } while (0)
#define CANCEL(i) do { ret[T] = cancels[i]() ? 1 : 0; } while (0)
#define NEW_WAITER(i) make_waiter(i, 0)
#define BODY(n) extern "C" void vf_thread_##n() { constexpr int T = n; (void)T; VF_T##n; }
extern "C" void vf_init() { fx = new Futex; (void)babylon::DepositBox<Futex::Node>::instance(); VF_INIT; }
#ifdef VF_T0
BODY(0)
#endif
#ifdef VF_T1
BODY(1)
#endif
#ifdef VF_T2
BODY(2)
#endif
extern "C" void vf_final() { VF_FINAL; }
