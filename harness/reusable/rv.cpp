// C12 (sequential): ReusableVector<uint64_t> on an ExclusiveMonotonicBufferResource driven by VF_K symbolic operations,
// compared after every step with a fixed-capacity reference array (std::vector semantics).
#include "babylon/reusable/vector.h"
#include "babylon/reusable/allocator.h"
#include "babylon/reusable/memory_resource.h"
#include "vf.h"
using namespace babylon;
using Res = ExclusiveMonotonicBufferResource;
using Alloc = MonotonicAllocator<uint64_t, Res>;
using Vec = ReusableVector<uint64_t, Alloc>;
#ifndef VF_K
#define VF_K 3
#endif
#define VF_MAXN 6
#ifndef VF_OPMASK
#define VF_OPMASK 0x7f      // ops 0..6; scenarios that exercise insert(pos,n,v) / erase(first,last) set bits 7 / 8
#endif
Res* res; Vec* v;
uint64_t ref[VF_MAXN + 2]; uint64_t rn; uint64_t rcons;     // rcons: instances that must exist = largest size reached so far
extern "C" void vf_init() {
  (void)Res::oversize_page_concurrent_adder();
  res = new Res; v = new Vec(Alloc{*res});
#ifdef VF_INIT
  VF_INIT;
#endif
}
static void same() {
  vf_check(v->size() == rn, 1); vf_check(v->empty() == (rn == 0), 1);
  vf_check(v->size() <= v->constructed_size() && v->constructed_size() <= v->capacity(), 2);
  if (rn > rcons) rcons = rn;
  vf_check(v->constructed_size() == rcons, 5);       // retained instances are reused, never re-created beyond the high-water mark
  for (uint64_t i = 0; i < rn && i < VF_MAXN; ++i) vf_check((*v)[i] == ref[i], 1);
  if (rn > 0) { vf_check(v->front() == ref[0], 1); vf_check(v->back() == ref[rn - 1 < VF_MAXN ? rn - 1 : 0], 1); }
  uint64_t n = 0; for (auto it = v->begin(); it != v->end() && n <= VF_MAXN; ++it) { vf_check(n < rn && *it == ref[n < VF_MAXN ? n : 0], 1); n++; }
  vf_check(n == rn, 1);
}
extern "C" void vf_thread_0() {
  uint64_t maxcap = v->capacity(); rcons = v->constructed_size();
  for (int step = 0; step < VF_K; ++step) {
    uint64_t op = vf_nondet64(); vf_assume(op < 9 && ((VF_OPMASK >> op) & 1));
    uint64_t a = vf_nondet64(); uint64_t val = 100 + step;
    uint64_t cap_before = v->capacity();
    if (op == 0) { vf_assume(rn < VF_MAXN); v->push_back(val); ref[rn] = val; rn++; }
    else if (op == 1) { vf_assume(rn > 0); v->pop_back(); rn--; }
    else if (op == 2) { vf_assume(rn < VF_MAXN && a <= rn); auto it = v->insert(v->begin() + a, val); vf_check(it == v->begin() + a, 3);
                        for (uint64_t i = rn; i > a && i <= VF_MAXN; --i) ref[i] = ref[i - 1]; ref[a < VF_MAXN ? a : 0] = val; rn++; }
    else if (op == 3) { vf_assume(rn > 0 && a < rn); auto it = v->erase(v->begin() + a); vf_check(it == v->begin() + a, 3);
                        for (uint64_t i = a; i + 1 < rn && i + 1 <= VF_MAXN; ++i) ref[i] = ref[i + 1]; rn--; }
    else if (op == 4) { vf_assume(a <= VF_MAXN); v->resize(a, val); for (uint64_t i = rn; i < a && i < VF_MAXN; ++i) ref[i] = val; rn = a; }
    else if (op == 5) { v->clear(); rn = 0; vf_check(v->capacity() == cap_before, 4); }         // logical clear keeps capacity
    else if (op == 7) {        // insert(pos, count, value): count 0..3 elements in front of a (possibly empty) tail
      uint64_t cnt = vf_nondet64(); vf_assume(cnt <= 3 && rn + cnt <= VF_MAXN && a <= rn);
      auto it = v->insert(v->begin() + a, cnt, val); vf_check(it == v->begin() + a, 3);
      for (uint64_t i = rn + cnt; i > a + cnt && i <= VF_MAXN; --i) ref[i - 1] = ref[i - 1 - cnt];
      for (uint64_t i = a; i < a + cnt && i < VF_MAXN; ++i) ref[i] = val;
      rn += cnt; }
    else if (op == 8) {        // erase(first, last)
      uint64_t b = vf_nondet64(); vf_assume(a <= b && b <= rn);
      auto it = v->erase(v->begin() + a, v->begin() + b); vf_check(it == v->begin() + a, 3);
      for (uint64_t i = a; i + (b - a) < rn && i < VF_MAXN; ++i) ref[i] = ref[i + (b - a) < VF_MAXN ? i + (b - a) : 0];
      rn -= b - a; }
    else { vf_assume(a <= VF_MAXN); v->assign(a, val); for (uint64_t i = 0; i < a && i < VF_MAXN; ++i) ref[i] = val; rn = a; }
    vf_check(v->capacity() >= cap_before, 4);                                                    // capacity never shrinks
    same();
  }
}
