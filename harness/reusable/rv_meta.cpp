// C12 (sequential): re-creation of a nested reusable vector from recorded allocation metadata (what the manager does
// periodically). A ReusableVector<ReusableVector<uint64_t>> holds two inner vectors with symbolic sizes a, b (<= 4); the
// metadata is recorded (update_allocation_metadata), a fresh instance is built from it on a fresh resource, and the same
// workload is repeated on the re-created instance. Oracle: the re-created instance is logically empty (equal to a fresh
// one), its retained capacity covers everything recorded (outer >= 2, every retained inner >= max(a, b)), and repeating
// the workload takes no new memory from the resource; contents equal the reference.
#include "babylon/reusable/vector.h"
#include "babylon/reusable/allocator.h"
#include "babylon/reusable/memory_resource.h"
#include "vf.h"
using namespace babylon;
using Res = ExclusiveMonotonicBufferResource;
using Alloc = MonotonicAllocator<uint64_t, Res>;
using Inner = ReusableVector<uint64_t, Alloc>;
using OAlloc = MonotonicAllocator<Inner, Res>;
using Outer = ReusableVector<Inner, OAlloc>;
Res* res1; Res* res2;
extern "C" void vf_init() { (void)Res::oversize_page_concurrent_adder(); res1 = new Res; res2 = new Res; }
static void work(Outer& o, uint64_t a, uint64_t b) {
  o.resize(2);
  for (uint64_t i = 0; i < a && i < 4; ++i) o[0].push_back(10 + i);
  for (uint64_t i = 0; i < b && i < 4; ++i) o[1].push_back(20 + i);
}
static void same(Outer& o, uint64_t a, uint64_t b, int label) {
  vf_check(o.size() == 2 && o[0].size() == a && o[1].size() == b, label);
  for (uint64_t i = 0; i < a && i < 4; ++i) vf_check(o[0][i] == 10 + i, label);
  for (uint64_t i = 0; i < b && i < 4; ++i) vf_check(o[1][i] == 20 + i, label);
}
extern "C" void vf_thread_0() {
  uint64_t a = vf_nondet64(), b = vf_nondet64(); vf_assume(a <= 4 && b <= 4);
  Outer* o1 = new Outer(OAlloc {*res1});
  work(*o1, a, b); same(*o1, a, b, 1);
  uint64_t cap0 = (*o1)[0].capacity(), cap1 = (*o1)[1].capacity();
  Outer::AllocationMetadata meta {};
  o1->update_allocation_metadata(meta);                                   // what the manager records before re-creating
  Outer* o2 = new Outer(meta, OAlloc {*res2});                            // ... and the re-creation on a fresh resource
  vf_check(o2->size() == 0 && o2->empty(), 2);                            // logically a fresh object
  vf_check(o2->capacity() >= 2 && o2->constructed_size() >= 2, 3);        // retained capacity covers the recorded workload
  uint64_t need = a > b ? a : b;
  o2->resize(2);
  vf_check((*o2)[0].capacity() >= need && (*o2)[1].capacity() >= need, 4); // every retained inner instance can take the largest recorded one
  vf_check((*o2)[0].size() == 0 && (*o2)[1].size() == 0, 2);
  o2->clear();
  uint64_t used = res2->space_used();
  work(*o2, a, b); same(*o2, a, b, 5);
  vf_check(res2->space_used() == used, 6);                                // converged: the same workload takes no new memory
  (void)cap0; (void)cap1;
}
