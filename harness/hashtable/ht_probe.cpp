// C03 (sequential): probing agreement between emplace and find in a 64-bucket ConcurrentFixedSwissTable with a harness hasher
// that lets the scenario choose home group and 7-bit tag. VF_FULL_GROUPS groups are filled completely, then a key whose home
// group (symbolic) may be one of the full ones is inserted: a find()/contains()/count() that starts after emplace returned
// must see it, a second emplace must return the same element with false.
#include "babylon/concurrent/transient_hash_table.h"
#include "vf.h"
struct H { size_t operator()(uint64_t k) const noexcept { return ((k >> 8) << 7) | (k & 0x7f); } };
using T = babylon::ConcurrentFixedSwissTable<uint64_t, H>;
T* t;
extern "C" void vf_init() {
  t = new T(64);
  for (uint64_t g = 0; g < VF_FULL_GROUPS; ++g) for (uint64_t i = 0; i < 16; ++i) t->emplace(((g * 16) << 8) | i);
}
extern "C" void vf_thread_0() {
  uint64_t home = vf_nondet64(); vf_assume(home < 4);
  uint64_t tag = vf_nondet64(); vf_assume(tag >= 0x20 && tag < 0x80);
  uint64_t key = ((home * 16) << 8) | tag;
  vf_check(t->find(key) == t->end() && !t->contains(key), 1);           // absent before
  auto r = t->emplace(key);
  vf_check(r.second && *r.first == key, 2);
  vf_check(t->contains(key) && t->count(key) == 1, 3);
  auto it = t->find(key); vf_check(it != t->end() && *it == key && &*it == &*r.first, 3);
  auto r2 = t->emplace(key); vf_check(!r2.second && &*r2.first == &*r.first, 4);
  for (uint64_t g = 0; g < VF_FULL_GROUPS; ++g) for (uint64_t i = 0; i < 16; i += 5) vf_check(t->contains(((g * 16) << 8) | i), 5);
}
