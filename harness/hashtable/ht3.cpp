// C03: two DIFFERENT keys whose hashes share the 7-bit control tag and the home group are emplaced concurrently into the
// real ConcurrentFixedSwissTable (optionally racing a third thread that looks one of them up). Each key has exactly one
// winner (its own inserter), the two elements are distinct, each inserter gets the element of ITS key, and afterwards both
// keys are found.
#include "babylon/concurrent/transient_hash_table.h"
#include "vf.h"
struct H { size_t operator()(uint64_t k) const noexcept { return (k & 0xff) << 7 | (k >> 8 & 0x7f); } };
using T = babylon::ConcurrentFixedSwissTable<uint64_t, H>;
#define K0 0x0105ull
#define K1 0x0185ull
T* t; uint64_t ins[2]; uint64_t adr[2]; uint64_t val[2]; uint64_t lk_found, lk_val;
extern "C" {
void vf_init() { t = new T(16);
#ifdef VF_PREFILL
  for (uint64_t i = 0; i < VF_PREFILL; ++i) t->emplace((uint64_t)(0x0200 + i));      // other tags: the racing slot is not the first of the group
#endif
}
void vf_thread_0() { auto r = t->emplace((uint64_t)K0); ins[0] = r.second; adr[0] = (uint64_t)&*r.first; val[0] = *r.first; }
void vf_thread_1() { auto r = t->emplace((uint64_t)K1); ins[1] = r.second; adr[1] = (uint64_t)&*r.first; val[1] = *r.first; }
#ifdef VF_LOOKUP
void vf_thread_2() { auto it = t->find((uint64_t)K1); lk_found = it != t->end(); if (lk_found) lk_val = *it; }
#endif
void vf_final() {
  vf_check(ins[0] == 1 && ins[1] == 1, 1);              // different keys: both insertions report success
  vf_check(adr[0] != adr[1], 2);                        // two elements
  vf_check(val[0] == K0 && val[1] == K1, 3);            // each inserter got the element of its own key
  vf_check(t->contains((uint64_t)K0) && t->contains((uint64_t)K1), 4);
  auto i0 = t->find((uint64_t)K0); auto i1 = t->find((uint64_t)K1);
  vf_check(i0 != t->end() && (uint64_t)&*i0 == adr[0] && i1 != t->end() && (uint64_t)&*i1 == adr[1], 5);
  vf_check(t->size() == 2
#ifdef VF_PREFILL
           + VF_PREFILL
#endif
           , 6);
#ifdef VF_LOOKUP
  if (lk_found) vf_check(lk_val == K1, 7);
#endif
}
}
extern "C" { void vf_prologue_0() { t->_size << 0; } void vf_prologue_1() { t->_size << 0; } void vf_prologue_2() { t->_size << 0; } }
