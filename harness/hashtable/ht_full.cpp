// C03 (sequential): insertion into a FULL ConcurrentFixedSwissTable fails without consuming its arguments. 16 buckets, all
// filled in set-up; then an insert of a symbolic key (present or absent, any home position / tag) with an element type that
// records being moved from. Oracle: an absent key is refused (end(), false) and the argument is intact; a present key is
// found (same element, false) and the argument is intact as well; the table still holds exactly its 16 keys.
#include "babylon/concurrent/transient_hash_table.h"
#include "vf.h"
struct V { uint64_t k; uint64_t moved_from {0}; uint64_t copies {0};
  V(uint64_t x) noexcept : k(x) {}
  V(V&& o) noexcept : k(o.k) { o.moved_from = 1; }
  V(const V& o) noexcept : k(o.k), copies(o.copies + 1) {}
  V& operator=(V&& o) noexcept { k = o.k; o.moved_from = 1; return *this; }
  bool operator==(const V& o) const noexcept { return k == o.k; } };
struct H { size_t operator()(const V& v) const noexcept { return ((v.k >> 8) << 7) | (v.k & 0x7f); } };
using T = babylon::ConcurrentFixedSwissTable<V, H>;
T* t;
extern "C" void vf_init() { t = new T(16); for (uint64_t i = 0; i < 16; ++i) { auto r = t->emplace(V {i + 1}); (void)r; } }
extern "C" void vf_thread_0() {
  vf_check(t->size() == 16 && t->bucket_count() == 16, 1);
  uint64_t key = vf_nondet64(); vf_assume((key & 0x7f) < 0x40 && (key >> 8) < 4 && (key & 0x80) == 0);
  bool present = key >= 1 && key <= 16;
  V arg {key};
  auto r = t->emplace(static_cast<V&&>(arg));
  vf_check(!r.second, 2);                                             // never a new element in a full table
  vf_check((r.first != t->end()) == present, 3);
  if (present) vf_check(r.first->k == key, 3);
  vf_check(arg.moved_from == 0 && arg.k == key, 4);                   // a failed / duplicate insertion does not consume its argument
  V arg2 {key};
  auto r2 = t->insert(static_cast<V&&>(arg2));
  vf_check(!r2.second && arg2.moved_from == 0, 4);
  vf_check(t->size() == 16, 5);
  vf_check(t->contains(V {key}) == present, 6);
  for (uint64_t i = 1; i <= 16; i += 3) vf_check(t->contains(V {i}), 6);
}
