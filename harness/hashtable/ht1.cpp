#include "babylon/concurrent/transient_hash_table.h"
#include "vf.h"
struct H { size_t operator()(uint64_t k) const noexcept { return (k & 0xff) << 7 | (k >> 8 & 0x7f); } };
using T = babylon::ConcurrentFixedSwissTable<uint64_t, H>;
T* t; uint64_t ins[2]; uint64_t adr[2]; uint64_t found;
extern "C" {
void vf_init() { t = new T(16); }
void vf_thread_0() { auto r = t->emplace((uint64_t)0x0105); ins[0] = r.second; adr[0] = (uint64_t)&*r.first; }
void vf_thread_1() { auto r = t->emplace((uint64_t)0x0105); ins[1] = r.second; adr[1] = (uint64_t)&*r.first; }
void vf_final() { vf_assert(ins[0] + ins[1] == 1); vf_assert(adr[0] == adr[1]); }
}
extern "C" { void vf_prologue_0() { t->_size << 0; } void vf_prologue_1() { t->_size << 0; } }
