#include "babylon/concurrent/transient_hash_table.h"
#include "vf.h"
struct H { size_t operator()(uint64_t k) const noexcept { return (k & 0xff) << 7 | (k >> 8 & 0x7f); } };
using V = std::pair<uint64_t, uint64_t>;
using T = babylon::ConcurrentFixedSwissTable<V, H, babylon::internal::concurrent_transient_hash_table::PairKeyExtractor<uint64_t, uint64_t>>;
T* t; uint64_t ins[2]; uint64_t seen_payload; uint64_t hit;
extern "C" {
void vf_init() { t = new T(16); }
void vf_prologue_0() { t->_size << 0; } void vf_prologue_1() { t->_size << 0; }
void vf_thread_0() { auto r = t->emplace((uint64_t)0x0105, (uint64_t)777); ins[0] = r.second; }
void vf_thread_1() { auto it = t->find((uint64_t)0x0105); if (it != t->end()) { hit = 1; seen_payload = it->second; } }
void vf_final() { vf_assert(hit == 0 || seen_payload == 777); }
}
