// C14: DepositBox: one taker wins, stale ids never match (slot reuse).
#include "babylon/concurrent/deposit_box.h"
#include "vf.h"
struct Item { uint64_t a, b; Item(uint64_t v) noexcept : a(v), b(~v) {} };
using B = babylon::DepositBox<Item>;
using Id = babylon::VersionedValue<uint32_t>;
B* box; Id id0, stale, idnew; uint64_t won[4]; uint64_t val[4]; uint64_t flag[4];
#define SIGNAL(i) __atomic_store_n(&flag[i], 1, __ATOMIC_RELEASE)
#define AWAIT(i) vf_assume(__atomic_load_n(&flag[i], __ATOMIC_ACQUIRE) == 1)
#define TAKE(id) do { auto acc = box->take(id); if (acc) { won[T] = 1; vf_check(acc->b == ~acc->a, 2); val[T] = acc->a; } } while (0)
#define TAKE_RELEASED(id) do { Item* p = box->take_released(id); if (p) { won[T] = 1; vf_check(p->b == ~p->a, 2); val[T] = p->a; box->finish_released(id); } } while (0)
#define EMPLACE_NEW(v) do { idnew = box->emplace((uint64_t)(v)); } while (0)
#define BODY(n) extern "C" void vf_thread_##n() { constexpr int T = n; (void)T; VF_T##n; }
extern "C" void vf_init() {
  box = new B;
  stale = box->emplace((uint64_t)7); { auto acc = box->take(stale); }      // slot 0 used once and released: 'stale' is dead
  id0 = box->emplace((uint64_t)42);                                        // reuses slot 0 with a newer version
#ifdef VF_INIT
  VF_INIT;
#endif
}
#ifdef VF_T0
BODY(0)
#endif
#ifdef VF_T1
BODY(1)
#endif
#ifdef VF_T2
BODY(2)
#endif
extern "C" void vf_final() { VF_FINAL; }
