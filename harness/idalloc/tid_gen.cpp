// C14 (sequential thread generations): per-thread ids across thread creation and exit. Generation k runs as a new OS thread
// after generation k-1 exited (its thread_local ThreadId destructor released the id). Two id spaces (types A and B), the
// second one only used by some generations (symbolic). Oracle: an id is stable within a thread, the id of an exited thread
// is reused by the next thread (freed values exist => no new value minted: end() does not grow), the version changes on
// reuse, for_each at quiescence reports exactly the live thread's value, spaces are independent.
#include "babylon/concurrent/id_allocator.h"
#include "vf.h"
using namespace babylon;
struct A {}; struct B {};
uint64_t a0, a0v, b0, b0v, used_b0, end_a0, end_b0;
template <typename T> static void live(uint64_t* n, uint64_t* first) {
  *n = 0; *first = ~0ull;
  ThreadId::for_each<T>([&](uint16_t b, uint16_t e) { for (uint16_t i = b; i != e; ++i) { if (*n == 0) *first = i; (*n)++; } });
}
extern "C" void vf_init() { (void)ThreadId::end<A>(); (void)ThreadId::end<B>(); }   // function-local statics (the allocators) are created in set-up
extern "C" void vf_thread_0() {
  auto id = ThreadId::current_thread_id<A>(); a0 = id.value; a0v = id.version;
  vf_check(ThreadId::current_thread_id<A>().version_and_value == id.version_and_value, 1);       // stable within the thread
  used_b0 = vf_nondet64() & 1;
  if (used_b0) { auto ib = ThreadId::current_thread_id<B>(); b0 = ib.value; b0v = ib.version; }
  end_a0 = ThreadId::end<A>(); end_b0 = ThreadId::end<B>();
  vf_check(end_a0 == a0 + 1, 2);
  uint64_t n, f; live<A>(&n, &f); vf_check(n == 1 && f == a0, 3);
  live<B>(&n, &f); vf_check(n == used_b0 && (!used_b0 || f == b0), 3);
}
extern "C" void vf_seq_1() {                    // next thread: the dead thread's values are free and must be reused
  uint64_t n, f;
  live<A>(&n, &f); vf_check(n == 0, 4);          // quiescent, nobody alive in space A
  auto id = ThreadId::current_thread_id<A>();
  vf_check(id.value == a0, 5);                   // reuse, not a new value
  vf_check(ThreadId::end<A>() == end_a0, 5);     // nothing minted
  vf_check(id.version != a0v, 6);                // a reused value carries a new version
  live<A>(&n, &f); vf_check(n == 1 && f == a0, 4);
  auto ib = ThreadId::current_thread_id<B>();
  if (used_b0) { vf_check(ib.value == b0 && ThreadId::end<B>() == end_b0 && ib.version != b0v, 7); }
  else { vf_check(ib.value == 0 && ThreadId::end<B>() == 1, 7); }
  live<B>(&n, &f); vf_check(n == 1 && f == ib.value, 4);
}
extern "C" void vf_seq_2() {                    // third generation: still one value per space
  auto id = ThreadId::current_thread_id<A>(); auto ib = ThreadId::current_thread_id<B>();
  vf_check(id.value == a0 && ThreadId::end<A>() == end_a0, 8);
  vf_check(ThreadId::end<B>() == 1, 8);
  uint64_t n, f; live<A>(&n, &f); vf_check(n == 1, 8); live<B>(&n, &f); vf_check(n == 1 && f == ib.value, 8);
}
