// C14 (histories, sequential mode): arbitrary allocate/deallocate history of VF_K operations on IdAllocator<uint32_t>,
// compared with a reference set: ids unique, reuse when a free value exists, for_each == live set, end() == minted.
#include "babylon/concurrent/id_allocator.h"
#include "vf.h"
using A = babylon::IdAllocator<uint32_t>;
using Id = babylon::VersionedValue<uint32_t>;
#ifndef VF_K
#define VF_K 5
#endif
A* a;
extern "C" void vf_init() { a = new A(); }
extern "C" void vf_thread_0() {
  Id ids[VF_K]; bool live[VF_K]; uint32_t minted = 0; int n = 0;
  uint64_t live_mask = 0;
  for (int i = 0; i < VF_K; ++i) live[i] = false;
  for (int step = 0; step < VF_K; ++step) {
    uint64_t op = vf_nondet64();
    int nlive = 0; for (int i = 0; i < n; ++i) nlive += live[i];
    if (op == 0 || nlive == 0) {                          // allocate
      bool have_free = (uint32_t)nlive < minted;
      Id id = a->allocate();
      vf_check(id.value < VF_K && !((live_mask >> id.value) & 1), 1);          // not held by anyone
      if (have_free) vf_check(id.value < minted, 4); else { vf_check(id.value == minted, 4); minted++; }
      ids[n] = id; live[n] = true; n++; live_mask |= 1ull << id.value;
    } else {                                              // deallocate one of the live ids, chosen by the solver
      uint64_t which = vf_nondet64(); vf_assume(which < (uint64_t)n);
      bool done = false;
      for (int i = 0; i < n; ++i) if ((uint64_t)i == which) { vf_assume(live[i]); a->deallocate(ids[i]); live[i] = false; live_mask &= ~(1ull << ids[i].value); done = true; }
      vf_assume(done);
    }
  }
  vf_check(a->end() == minted, 5);
  uint64_t seen = 0;
  a->for_each([&](uint32_t b, uint32_t e) { vf_check(b < e && e <= VF_K, 3); for (uint32_t v = b; v < e && v < VF_K; ++v) { vf_check(!((seen >> v) & 1), 3); seen |= 1ull << v; } });
  vf_check(seen == live_mask, 2);
}
