#include "babylon/concurrent/id_allocator.h"
#include "vf.h"
using A = babylon::IdAllocator<uint32_t>;
A* a; uint32_t got[4]; 
extern "C" {
void vf_init() { a = new A(); auto i0 = a->allocate(); auto i1 = a->allocate(); a->deallocate(i1); a->deallocate(i0); }
void vf_thread_0() { got[0] = a->allocate().value; got[3] = a->allocate().value; }
void vf_thread_1() { auto y = a->allocate(); auto z = a->allocate(); got[1] = z.value; a->deallocate(y); }
void vf_final() { vf_assert(got[0] != got[1] && got[0] != got[3] && got[1] != got[3]); }
}
