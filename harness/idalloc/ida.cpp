// C14: IdAllocator<uint32_t> under concurrent allocate/deallocate (incl. pop vs pop-push-pop: ABA) and DepositBox.
#include "babylon/concurrent/id_allocator.h"
#include "vf.h"
using A = babylon::IdAllocator<uint32_t>;
using Id = babylon::VersionedValue<uint32_t>;
A* a; uint32_t held[4][4]; uint64_t nheld[4]; uint64_t flag[4];
#define SIGNAL(i) __atomic_store_n(&flag[i], 1, __ATOMIC_RELEASE)
#define AWAIT(i) vf_assume(__atomic_load_n(&flag[i], __ATOMIC_ACQUIRE) == 1)
#ifndef VF_PREFREE
#define VF_PREFREE 2
#endif
// ALLOC(k): allocate and keep it as this thread's k-th held id;  ALLOC_FREE(): allocate then give it back
#define ALLOC(k) do { auto id = a->allocate(); held[T][k] = id.value; nheld[T] = (k) + 1; } while (0)
#define ALLOC_THEN_FREE() do { auto id = a->allocate(); a->deallocate(id); } while (0)
#define ALLOC_ALLOC_FREE_FIRST(k) do { auto y = a->allocate(); auto z = a->allocate(); held[T][k] = z.value; nheld[T] = (k) + 1; a->deallocate(y); } while (0)
// after every other thread has finished: free values exist iff fewer ids are held than were ever minted => must reuse
#define REUSE_CHECK() do { AWAIT(0); AWAIT(1); uint64_t total = nheld[0] + nheld[1]; auto e0 = a->end(); \
    if (total < e0) { auto id = a->allocate(); held[T][0] = id.value; nheld[T] = 1; vf_check(id.value < e0, 4); vf_check(a->end() == e0, 4); } } while (0)
#define BODY(n) extern "C" void vf_thread_##n() { constexpr int T = n; (void)T; VF_T##n; }
extern "C" void vf_init() {
  a = new A();
  Id tmp[8];
  for (int i = 0; i < VF_PREFREE; ++i) tmp[i] = a->allocate();
  for (int i = VF_PREFREE; i > 0; --i) a->deallocate(tmp[i - 1]);     // free list: 0 -> 1 -> ... (all values < VF_PREFREE)
}
#ifdef VF_T0
BODY(0)
#endif
#ifdef VF_T1
BODY(1)
#endif
#ifdef VF_T2
BODY(2)
#endif
extern "C" void vf_final() {
  // no value is held by two owners
  for (int t = 0; t < 3; ++t) for (uint64_t i = 0; i < 4; ++i) if (i < nheld[t])
    for (int u = 0; u < 3; ++u) for (uint64_t j = 0; j < 4; ++j) if (j < nheld[u] && (u > t || (u == t && j > i)))
      vf_check(held[t][i] != held[u][j], 1);
  uint64_t live_mask = 0, total = 0;
  for (int t = 0; t < 3; ++t) for (uint64_t i = 0; i < 4; ++i) if (i < nheld[t]) { vf_check(held[t][i] < 16, 3); live_mask |= 1ull << (held[t][i] & 15); total++; }
}
