#include "babylon/concurrent/vector.h"
#include "vf.h"
#include <time.h>
struct X { uint64_t retired_at; };
static inline uint64_t now_s() { timespec ts; clock_gettime(CLOCK_MONOTONIC_RAW, &ts); return (uint64_t)ts.tv_sec; }
struct Del { void operator()(X* x) noexcept { uint64_t t = now_s(); vf_assert(t >= x->retired_at + 64); } };
using RL = babylon::internal::concurrent_vector::RetireList<X, Del>;
RL* rl; X xa, xb;
extern "C" {
void vf_init() { rl = new RL; }
void vf_thread_0() { xa.retired_at = now_s(); rl->retire(&xa); }
void vf_thread_1() { xb.retired_at = now_s(); rl->retire(&xb); }
void vf_thread_2() { rl->gc(); }
}
