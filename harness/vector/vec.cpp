// C04: ConcurrentVector<E, 0> (dynamic block size VF_BS) grown concurrently; harness operator new/delete record every
// allocation so that frees are observable: a block table may be freed only >= 64 s after the growth that replaced it.
#include "vf.h"
#include <new>
#include <stdlib.h>
struct FreeRec { void* p; uint64_t at; };
FreeRec freed[16]; std::size_t nfreed_dummy;
uint64_t nfreed;     // number of frees seen (atomic increments below)
void* watch_table; uint64_t watch_since;      // table pointer the scenario watches + clock reading taken BEFORE it was superseded
static inline void note_free(void* p) {
  if (p != nullptr && p == __atomic_load_n(&watch_table, __ATOMIC_ACQUIRE)) {
    uint64_t now = vf_now_s();
    vf_check(now >= __atomic_load_n(&watch_since, __ATOMIC_RELAXED) + 64, 4);    // cooling period
  }
  __atomic_fetch_add(&nfreed, 1, __ATOMIC_RELAXED);
}
void operator delete(void* p, std::size_t, std::align_val_t) noexcept { note_free(p); }
void operator delete(void* p, std::align_val_t) noexcept { note_free(p); }
#include "babylon/concurrent/vector.h"
struct E {
  uint64_t magic; uint64_t v;
  E() noexcept : magic(0xC0FFEE), v(0) { __atomic_fetch_add(&ctors, 1, __ATOMIC_RELAXED); }
  ~E() noexcept { vf_check(magic == 0xC0FFEE, 3); magic = 0xDEAD; __atomic_fetch_add(&dtors, 1, __ATOMIC_RELAXED); }
  static uint64_t ctors, dtors;
};
uint64_t E::ctors, E::dtors;
#ifndef VF_BS
#define VF_BS 1
#endif
using V = babylon::ConcurrentVector<E, 0>;
V* v; E* addr[4][4]; uint64_t flag[4]; E* addr0;
#define SIGNAL(i) __atomic_store_n(&flag[i], 1, __ATOMIC_RELEASE)
#define AWAIT(i) vf_assume(__atomic_load_n(&flag[i], __ATOMIC_ACQUIRE) == 1)
#define ENSURE(i, slot) do { E& e = v->ensure(i); vf_check(e.magic == 0xC0FFEE, 2); addr[T][slot] = &e; } while (0)
#define SNAP_READ(i, slot) do { auto s = v->snapshot(); if ((i) < s.size()) { E& e = s[i]; vf_check(e.magic == 0xC0FFEE, 2); addr[T][slot] = &e; } } while (0)
#define WATCH_GROW(i) do { watch_since = vf_now_s(); __atomic_store_n(&watch_table, (void*)v->_block_table.load(std::memory_order_relaxed), __ATOMIC_RELEASE); v->ensure(i); } while (0)
#define GC() do { v->gc(); } while (0)
#define BODY(n) extern "C" void vf_thread_##n() { constexpr int T = n; (void)T; VF_T##n; }
extern "C" void vf_init() { v = new V(VF_BS);
#ifdef VF_INIT
  VF_INIT;
#endif
}
#ifdef VF_T0
BODY(0)
#endif
#ifdef VF_T1
BODY(1)
#endif
#ifdef VF_T2
BODY(2)
#endif
extern "C" void vf_final() {
  VF_FINAL;
#ifdef VF_DESTROY
  // the vector dies: every element that was ever constructed is destroyed exactly once (losers of growth races included)
  v->~V();
  vf_check(E::ctors == E::dtors, 5);
#endif
}
