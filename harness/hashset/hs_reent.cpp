// C03 (growing set, re-entrant scheduling hook): the set's hasher is the scheduling point. While thread A's emplace(K) is at its
// k-th hash computation (k symbolic: before probing the full head table, after chaining the new table and before probing it, ...)
// another thread's complete emplace(K) of the SAME key is performed on the spot. This is one interleaving of the concurrent
// history per k, executed sequentially and replayed natively. Oracle: exactly one of the two insertions reports success, both get
// the same element, the key is present once, size and iteration count every old and new key once.
#include "babylon/concurrent/transient_hash_table.h"
#include "vf.h"
#ifndef VF_KEY
#define VF_KEY 0x0511
#endif
#ifndef VF_PREFILL
#define VF_PREFILL 16
#endif
static uint64_t armed, fire_at, calls, inner_fired, inner_ins, inner_adr;
static void hook(uint64_t k);
struct H { size_t operator()(uint64_t k) const noexcept { hook(k); return (k & 0xff) << 7 | (k >> 8 & 0x7f); } };
using Set = babylon::ConcurrentTransientHashSet<uint64_t, H>;
Set* s;
static void hook(uint64_t k) {
  if (!armed || k != VF_KEY) return;
  if (calls++ != fire_at) return;
  armed = 0; inner_fired = 1;
  auto r = s->emplace((uint64_t)VF_KEY); inner_ins = r.second ? 1 : 0; inner_adr = (uint64_t)&*r.first;
}
extern "C" void vf_init() {
  s = new Set(16);
  for (uint64_t i = 0; i < VF_PREFILL; ++i) s->emplace((uint64_t)(0x0100 + i));      // home group 0, distinct tags: the head table is full
}
extern "C" void vf_thread_0() {
  fire_at = vf_nondet64(); vf_assume(fire_at < 4);
  armed = 1;
  auto r = s->emplace((uint64_t)VF_KEY);
  armed = 0;
  uint64_t outer_ins = r.second ? 1 : 0, outer_adr = (uint64_t)&*r.first;
  vf_check(*r.first == VF_KEY, 2);
  if (inner_fired) { vf_check(outer_ins + inner_ins == 1, 1); vf_check(outer_adr == inner_adr, 2); }
  else vf_check(outer_ins == 1, 1);
  vf_check(s->size() == VF_PREFILL + 1, 3);
  { auto it = s->find((uint64_t)VF_KEY); vf_check(it != s->end() && (uint64_t)&*it == outer_adr, 4); }
  uint64_t n = 0, nk = 0;
  for (auto it = s->begin(); it != s->end() && n < 40; ++it) { ++n; if (*it == VF_KEY) ++nk; }
  vf_check(n == VF_PREFILL + 1 && nk == 1, 5);
  { auto r2 = s->emplace((uint64_t)VF_KEY); vf_check(!r2.second && (uint64_t)&*r2.first == outer_adr, 1); }
}
