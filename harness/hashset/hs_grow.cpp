// C18 (sequential): ConcurrentTransientHashSet<uint64_t, H> built by VF_CTOR, N inserts (N symbolic <= VF_N, with
// duplicates), then size / iteration / find compared with a reference bitmap.
#include "babylon/concurrent/transient_hash_table.h"
#include "vf.h"
struct H { size_t operator()(uint64_t k) const noexcept { return k * 0x9E3779B97F4A7C15ull; } };
using Set = babylon::ConcurrentTransientHashSet<uint64_t, H>;
#ifndef VF_N
#define VF_N 40
#endif
#ifndef VF_CTOR
#define VF_CTOR Set()
#endif
Set* s;
extern "C" void vf_init() { s = new VF_CTOR; }
extern "C" void vf_thread_0() {
#ifdef VF_EXACT
  uint64_t n = vf_nondet64(); vf_assume(n == VF_N);
#else
  uint64_t n = vf_nondet64(); vf_assume(n <= VF_N);
#ifdef VF_LO
  vf_assume(n >= VF_LO);
#endif
#endif
  uint64_t ref[2] = {0, 0}; uint64_t cnt = 0;
  for (uint64_t i = 0; i < n && i < VF_N; ++i) {
    uint64_t k = (i * 5) % 64;                       // 5 is odd: first 64 keys distinct, then duplicates would repeat
    bool fresh = !((ref[k >> 6 & 1] >> (k & 63)) & 1);
    auto r = s->emplace(k);
    vf_check(r.second == fresh, 1);
    vf_check(*r.first == k, 1);
    if (fresh) { ref[k >> 6 & 1] |= 1ull << (k & 63); cnt++; }
    if (i % 3 == 2) { auto r2 = s->emplace(k); vf_check(!r2.second && *r2.first == k, 1); }      // re-insert: not a new element
  }
#ifdef VF_COPY   /* not registered: the engine mis-executes the copy of a GROWN set on the unchanged tree (natively refuted), DESIGN 10.5 */
  Set cp(*s); Set* s = &cp;        // every check below looks at a COPY of the set
#endif
  vf_check(s->size() == cnt, 2);
  vf_check(s->empty() == (cnt == 0), 5);
  uint64_t seen[2] = {0, 0}; uint64_t it = 0;
#ifdef VF_FINE   /* dev aid: one label per condition */
  for (auto& v : *s) { vf_check(v < 64, 30); vf_check(!((seen[0] >> (v & 63)) & 1), 31); seen[0] |= 1ull << (v & 63); it++; if (it > VF_N + 2) break; }
  vf_check(it == cnt, 32); vf_check((seen[0] & ~ref[0]) == 0, 33); vf_check((ref[0] & ~seen[0]) == 0, 34); vf_check(it <= cnt, 35); vf_check(it >= cnt, 36);
#else
  for (auto& v : *s) { vf_check(v < 64 && !((seen[0] >> v) & 1), 3); seen[0] |= 1ull << (v & 63); it++; if (it > VF_N + 2) break; }
  vf_check(it == cnt && seen[0] == ref[0], 3);
#endif
#ifndef VF_NOFIND
  for (uint64_t k = 0; k < 64; ++k) { bool in = (ref[0] >> k) & 1; vf_check(s->contains(k) == in, 4); vf_check((s->find(k) != s->end()) == in, 4); }
#endif
}
