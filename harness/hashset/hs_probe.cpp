// C18 (sequential): probing agreement between insertion and lookup in a 64-bucket ConcurrentTransientHashSet with a harness
// hasher that lets the scenario choose home group and 7-bit tag. Two groups are filled completely, then a key whose home
// group (symbolic) may be one of the full ones is inserted: it must land where find()/contains() look for it.
#include "babylon/concurrent/transient_hash_table.h"
#include "vf.h"
// hash = home_bucket << 7 | tag   (the table takes the tag from the low 7 bits and the bucket from the rest)
struct H { size_t operator()(uint64_t k) const noexcept { return ((k >> 8) << 7) | (k & 0x7f); } };
using Set = babylon::ConcurrentTransientHashSet<uint64_t, H>;
Set* s;
extern "C" void vf_init() {
  s = new Set(64);
  for (uint64_t g = 0; g < VF_FULL_GROUPS; ++g) for (uint64_t i = 0; i < 16; ++i) s->emplace(((g * 16) << 8) | i);      // fill group g
}
extern "C" void vf_thread_0() {
  uint64_t home = vf_nondet64(); vf_assume(home < 4);
  uint64_t tag = vf_nondet64(); vf_assume(tag >= 0x20 && tag < 0x80);       // distinct from the 16 * VF_FULL_GROUPS prefilled keys
  uint64_t key = ((home * 16) << 8) | tag;
  auto r = s->emplace(key);
  vf_check(r.second && *r.first == key, 1);
  vf_check(s->size() == 16 * VF_FULL_GROUPS + 1, 2);
  vf_check(s->contains(key), 4);
  auto it = s->find(key); vf_check(it != s->end() && *it == key, 4);
  auto r2 = s->emplace(key); vf_check(!r2.second && *r2.first == key, 1);
  for (uint64_t g = 0; g < VF_FULL_GROUPS; ++g) for (uint64_t i = 0; i < 16; i += 5) vf_check(s->contains(((g * 16) << 8) | i), 4);
  uint64_t n = 0, seen = 0; for (auto& v : *s) { if (v == key) seen++; n++; if (n > 80) break; }
  vf_check(n == 16 * VF_FULL_GROUPS + 1 && seen == 1, 3);
}
