// C03 (growing set, concurrent): ConcurrentTransientHashSet<uint64_t, H>{16} filled to its 16 buckets in set-up, then two
// threads emplace at the moment the set has to GROW (chain a new table): the same new key from both threads, or two
// different keys. Oracle: per key exactly one insertion reports success, both callers of one key get the same element,
// afterwards every old and new key is found exactly once and size() counts them.
#include "babylon/concurrent/transient_hash_table.h"
#include "vf.h"
struct H { size_t operator()(uint64_t k) const noexcept { return (k & 0xff) << 7 | (k >> 8 & 0x7f); } };
using Set = babylon::ConcurrentTransientHashSet<uint64_t, H>;
Set* s; uint64_t ins[2]; uint64_t adr[2]; uint64_t val[2];
#ifndef VF_K0
#define VF_K0 0x0511
#endif
#ifndef VF_K1
#define VF_K1 0x0511
#endif
#ifndef VF_PREFILL
#define VF_PREFILL 16
#endif
extern "C" {
void vf_init() {
  s = new Set(16);
  for (uint64_t i = 0; i < VF_PREFILL; ++i) s->emplace((uint64_t)(0x0100 + i));      // tags differ, home group 0: the head table is full
}
void vf_thread_0() { auto r = s->emplace((uint64_t)VF_K0); ins[0] = r.second; adr[0] = (uint64_t)&*r.first; val[0] = *r.first; }
void vf_thread_1() { auto r = s->emplace((uint64_t)VF_K1); ins[1] = r.second; adr[1] = (uint64_t)&*r.first; val[1] = *r.first; }
void vf_final() {
  vf_check(val[0] == VF_K0 && val[1] == VF_K1, 2);
  if (VF_K0 == VF_K1) { vf_check(ins[0] + ins[1] == 1, 1); vf_check(adr[0] == adr[1], 2); }
  else { vf_check(ins[0] == 1 && ins[1] == 1, 1); vf_check(adr[0] != adr[1], 2); }
  uint64_t expect = VF_PREFILL + (VF_K0 == VF_K1 ? 1 : 2);
  vf_check(s->size() == expect, 3);
  vf_check(s->contains((uint64_t)VF_K0) && s->contains((uint64_t)VF_K1), 4);
  { auto it = s->find((uint64_t)VF_K0); vf_check(it != s->end() && (uint64_t)&*it == adr[0], 4); }
  uint64_t n = 0, n0 = 0, n1 = 0;
  for (auto it = s->begin(); it != s->end() && n < 40; ++it) { ++n; if (*it == VF_K0) ++n0; if (*it == VF_K1) ++n1; }
  vf_check(n == expect, 5);                                   // growth neither dropped nor duplicated a key
  vf_check(n0 == 1 && n1 == 1, 5);
}
void vf_prologue_0() { s->emplace((uint64_t)0x0100); }
void vf_prologue_1() { s->emplace((uint64_t)0x0100); }
}
