// C18 (sequential): histories of ConcurrentTransientHashSet<uint64_t, H>: VF_N1 inserts (enough to chain tables behind the
// head when the set is default-constructed or small), then ONE symbolic maintenance operation out of
// clear / reserve(a) / rehash(a) / move-construct / move-assign / swap / copy-assign-from-small / self-consistent no-op,
// then VF_N2 more inserts (symbolic keys), then size / empty / iteration / find / contains against a reference bitmap.
#include "babylon/concurrent/transient_hash_table.h"
#include "vf.h"
struct H { size_t operator()(uint64_t k) const noexcept { return k * 0x9E3779B97F4A7C15ull; } };
using Set = babylon::ConcurrentTransientHashSet<uint64_t, H>;
#ifndef VF_N1
#define VF_N1 20
#endif
#ifndef VF_N2
#define VF_N2 2
#endif
#ifndef VF_CTOR
#define VF_CTOR Set()
#endif
#ifndef VF_KEYS
#define VF_KEYS 32
#endif
#ifndef VF_NOPS
#define VF_NOPS 7
#endif
Set* s; Set* o;
extern "C" void vf_init() { s = new VF_CTOR; o = new Set(); o->emplace(40); o->emplace(41); }
static void compare(Set* p, uint64_t ref, int label) {
  uint64_t cnt = __builtin_popcountll(ref);
  vf_check(p->size() == cnt, label);
  vf_check(p->empty() == (cnt == 0), label);
  uint64_t seen = 0, it = 0;
  for (auto& v : *p) { vf_check(v < 64 && !((seen >> (v & 63)) & 1), label + 1); seen |= 1ull << (v & 63); it++; if (it > VF_N1 + VF_N2 + 4) break; }
  vf_check(it == cnt && seen == ref, label + 1);
  for (uint64_t k = 0; k < VF_KEYS; ++k) { bool in = (ref >> k) & 1; vf_check(p->contains(k) == in, label + 2); vf_check((p->find(k) != p->end()) == in, label + 2); vf_check(p->count(k) == (in ? 1u : 0u), label + 2); }
  for (uint64_t k = 40; k < 42; ++k) { bool in = (ref >> k) & 1; vf_check(p->contains(k) == in, label + 2); }
}
extern "C" void vf_thread_0() {
  uint64_t ref = 0;
  for (uint64_t i = 0; i < VF_N1; ++i) { uint64_t k = (i * 5) % VF_KEYS; auto r = s->emplace(k); vf_check(r.second == !((ref >> k) & 1) && *r.first == k, 1); ref |= 1ull << k; }
  uint64_t op = vf_nondet64(); vf_assume(op < VF_NOPS);
#ifdef VF_OP
  vf_assume(op == VF_OP);
#endif
  uint64_t a = vf_nondet64(); vf_assume(a < 4);      // argument of reserve/rehash: one of 0, 7, 33, 64 (each a separate call site: table sizes stay concrete)
  uint64_t oref = (1ull << 40) | (1ull << 41);
  Set* cur = s;
  if (op == 0) { s->clear(); ref = 0; }
  else if (op == 1) { if (a == 0) s->reserve(0); else if (a == 1) s->reserve(7); else if (a == 2) s->reserve(33); else s->reserve(64); }
  else if (op == 2) { if (a == 0) s->rehash(0); else if (a == 1) s->rehash(7); else if (a == 2) s->rehash(33); else s->rehash(64); }
  else if (op == 3) { cur = new Set(static_cast<Set&&>(*s)); compare(s, 0, 20); }                    // moved-from: empty and usable
  else if (op == 4) { *o = static_cast<Set&&>(*s); cur = o; }                                        // move-assign over a non-empty set
  else if (op == 5) { s->swap(*o); compare(o, ref, 30); uint64_t t = ref; ref = oref; oref = t; }     // swap: both sides exchanged
  else { /* op 6: nothing */ }
#ifdef VF_MIDCHECK
  compare(cur, ref, 10);
#endif
  for (uint64_t i = 0; i < VF_N2; ++i) {
    uint64_t k = vf_nondet64(); vf_assume(k < VF_KEYS);
    auto r = cur->emplace(k); vf_check(r.second == !((ref >> k) & 1) && *r.first == k, 2); ref |= 1ull << k;
  }
  compare(cur, ref, 40);
}
