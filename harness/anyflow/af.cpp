// C05: a small anyflow graph built by the real GraphBuilder during set-up (executed concretely), then run with a harness
// executor that hands vertex invocations to harness threads.
#include "babylon/anyflow/builder.h"
#include "vf.h"
using namespace babylon::anyflow;
uint64_t ran[4]; uint64_t order[8]; uint64_t norder;
struct PlusOne : public GraphProcessor {
  int process() noexcept override { uint64_t k = __atomic_fetch_add(&norder, 1, __ATOMIC_RELAXED); if (k < 8) order[k] = id; __atomic_fetch_add(&ran[id & 3], 1, __ATOMIC_RELAXED); *x.emit() = *a + 1; return 0; }
  uint64_t id {0};
  ANYFLOW_INTERFACE(ANYFLOW_DEPEND_DATA(uint64_t, a, 0) ANYFLOW_EMIT_DATA(uint64_t, x))
};
GraphBuilder* builder; Graph* graph; GraphData* A; GraphData* B; GraphData* C; uint64_t result; int rc; int rc_finish = -99;
extern "C" void vf_init() {
  builder = new GraphBuilder;
  { auto& v = builder->add_vertex([] { auto p = std::unique_ptr<PlusOne>(new PlusOne); p->id = 0; return p; }); v.named_depend("a").to("A"); v.named_emit("x").to("B"); }
  { auto& v = builder->add_vertex([] { auto p = std::unique_ptr<PlusOne>(new PlusOne); p->id = 1; return p; }); v.named_depend("a").to("B"); v.named_emit("x").to("C"); }
  rc_finish = builder->finish();
  graph = builder->build().release();
  A = graph->find_data("A"); B = graph->find_data("B"); C = graph->find_data("C");
}
extern "C" void vf_thread_0() {
  uint64_t in = vf_nondet64();
  *A->emit<uint64_t>() = in;
  auto closure = graph->run(C);
  rc = closure.get();
  vf_check(rc == 0, 1);
  vf_check(*C->value<uint64_t>() == in + 2, 2);
  vf_check(ran[0] == 1 && ran[1] == 1 && order[0] == 0 && order[1] == 1, 3);
}
