// Models of the few out-of-line libstdc++ / abseil functions the anyflow builder needs (no IR in the shared libraries).
// They only have to be *a* correct implementation of the documented behaviour (a hash, a rehash policy, string storage);
// compiled with the same -D_GLIBCXX_EXTERN_TEMPLATE=0 as the harness. Trusted base of the C05 scenarios.
#include <string>
#include <unordered_map>
#include <absl/container/internal/raw_hash_set.h>
#include <string.h>
namespace std {
size_t _Hash_bytes(const void* ptr, size_t len, size_t seed) {
  const unsigned char* p = static_cast<const unsigned char*>(ptr); size_t h = seed ^ 0xcbf29ce484222325ull;
  for (size_t i = 0; i < len; ++i) { h ^= p[i]; h *= 0x100000001b3ull; }
  return h;
}
namespace __detail {
// integer-only (the engine does not interpret floating point): valid for the default max_load_factor of 1.0, which is all the
// anyflow code uses
std::pair<bool, std::size_t> _Prime_rehash_policy::_M_need_rehash(std::size_t n_bkt, std::size_t n_elt, std::size_t n_ins) const {
  std::size_t want = n_elt + n_ins;
  if (want > _M_next_resize) {
    if (want >= n_bkt) {
      std::size_t grown = n_bkt * 2 + 1; std::size_t nb = want + 1 > grown ? want + 1 : grown;
      _M_next_resize = nb;
      return std::make_pair(true, nb);
    }
    _M_next_resize = n_bkt;
  }
  return std::make_pair(false, (std::size_t)0);
}
}  // namespace __detail
}  // namespace std
namespace absl { inline namespace debian3 { namespace container_internal {
alignas(16) extern const ctrl_t kEmptyGroup[16] = {ctrl_t::kSentinel, ctrl_t::kEmpty, ctrl_t::kEmpty, ctrl_t::kEmpty, ctrl_t::kEmpty, ctrl_t::kEmpty, ctrl_t::kEmpty,
  ctrl_t::kEmpty, ctrl_t::kEmpty, ctrl_t::kEmpty, ctrl_t::kEmpty, ctrl_t::kEmpty, ctrl_t::kEmpty, ctrl_t::kEmpty, ctrl_t::kEmpty, ctrl_t::kEmpty};
bool ShouldInsertBackwards(size_t, const ctrl_t*) { return false; }
template FindInfo find_first_non_full<void>(const ctrl_t*, size_t, size_t);
void ConvertDeletedToEmptyAndFullToDeleted(ctrl_t* ctrl, size_t capacity) {
  for (size_t i = 0; i < capacity; ++i) ctrl[i] = IsFull(ctrl[i]) ? ctrl_t::kDeleted : ctrl_t::kEmpty;
  memcpy(ctrl + capacity + 1, ctrl, NumClonedBytes());
  ctrl[capacity] = ctrl_t::kSentinel;
}
}}}
