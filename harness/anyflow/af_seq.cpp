// C05 (sequential, whole pipeline, inplace executor): a fan-out / fan-in graph with conditional dependencies (on / unless), an
// unneeded vertex, symbolic inputs, symbolic condition and a symbolic choice of requested targets, run twice with reset()
// in between. Oracle: a reference demand-driven evaluation written out in the harness.
//   A (u64), C (bool) external;  v0: B = A+1;  v1: D = A+10;  v2: E = B + (d ? D : 100)  with d -> D on C;
//   v3: U = A+5 (never needed);  v4: F = (a ? D+5 : 1000)  with a -> D unless C.
#include "babylon/anyflow/builder.h"
#include "vf.h"
using namespace babylon::anyflow;
uint64_t ran[5]; uint64_t seq[5]; uint64_t nseq;
struct Plus : public GraphProcessor {
  int process() noexcept override { ran[id]++; seq[id] = ++nseq; *x.emit() = a ? *a + k : 1000; return 0; }
  uint64_t id {0}, k {0};
  ANYFLOW_INTERFACE(ANYFLOW_DEPEND_DATA(uint64_t, a, 0) ANYFLOW_EMIT_DATA(uint64_t, x))
};
struct Sum2 : public GraphProcessor {
  int process() noexcept override { ran[id]++; seq[id] = ++nseq; *x.emit() = *b + (d ? *d : 100); return 0; }
  uint64_t id {0};
  ANYFLOW_INTERFACE(ANYFLOW_DEPEND_DATA(uint64_t, b, 1) ANYFLOW_DEPEND_DATA(uint64_t, d, 0) ANYFLOW_EMIT_DATA(uint64_t, x))
};
GraphBuilder* builder; Graph* graph; GraphData *A, *C, *B, *D, *E, *U, *F;
template <uint64_t ID, uint64_t K> static std::unique_ptr<Plus> mk() { auto p = std::unique_ptr<Plus>(new Plus); p->id = ID; p->k = K; return p; }
extern "C" void vf_init() {
  builder = new GraphBuilder;
  { auto& v = builder->add_vertex([] { return mk<0, 1>(); }); v.named_depend("a").to("A"); v.named_emit("x").to("B"); }
  { auto& v = builder->add_vertex([] { return mk<1, 10>(); }); v.named_depend("a").to("A"); v.named_emit("x").to("D"); }
  { auto& v = builder->add_vertex([] { auto p = std::unique_ptr<Sum2>(new Sum2); p->id = 2; return p; });
    v.named_depend("b").to("B"); v.named_depend("d").to("D").on("C"); v.named_emit("x").to("E"); }
  { auto& v = builder->add_vertex([] { return mk<3, 5>(); }); v.named_depend("a").to("A"); v.named_emit("x").to("U"); }
  { auto& v = builder->add_vertex([] { return mk<4, 5>(); }); v.named_depend("a").to("D").unless("C"); v.named_emit("x").to("F"); }
  builder->finish();
  graph = builder->build().release();
  A = graph->find_data("A"); C = graph->find_data("C"); B = graph->find_data("B"); D = graph->find_data("D");
  E = graph->find_data("E"); U = graph->find_data("U"); F = graph->find_data("F");
}
static void one_run(int label) {
  for (int i = 0; i < 5; ++i) { ran[i] = 0; seq[i] = 0; } nseq = 0;
  uint64_t a = vf_nondet64(); bool c = vf_nondet64() & 1; uint64_t sel = vf_nondet64(); vf_assume(sel < 3);
  *A->emit<uint64_t>() = a; *C->emit<bool>() = c;
  bool wantE = sel != 1, wantF = sel != 0;
  Closure closure = sel == 0 ? graph->run(E) : sel == 1 ? graph->run(F) : graph->run(E, F);
  vf_check(closure.finished(), label);                      // the run terminated with the closure finished
  int rc = closure.get(); closure.wait();
  vf_check(rc == 0, label);
  // reference: sequential demand-driven evaluation
  uint64_t rB = a + 1, rD = a + 10, rE = rB + (c ? rD : 100), rF = c ? 1000 : rD + 5;
  bool needD = (wantE && c) || (wantF && !c);
  if (wantE) vf_check(E->ready() && !E->empty() && *E->value<uint64_t>() == rE, label + 1);
  if (wantF) vf_check(F->ready() && !F->empty() && *F->value<uint64_t>() == rF, label + 1);
  vf_check(ran[0] == (wantE ? 1 : 0) && ran[2] == (wantE ? 1 : 0) && ran[4] == (wantF ? 1 : 0), label + 2);   // needed vertices once, others never
  vf_check(ran[1] == (needD ? 1 : 0) && ran[3] == 0, label + 2);
  vf_check(!U->ready(), label + 2);
  if (wantE) vf_check(seq[0] < seq[2] && (!c || seq[1] < seq[2]), label + 3);       // a vertex runs only after its dependencies
  if (wantF && !c) vf_check(seq[1] < seq[4], label + 3);
  if (ran[1]) vf_check(*D->value<uint64_t>() == rD, label + 1);
}
extern "C" void vf_thread_0() {
  one_run(10);
  graph->reset();
  vf_check(!E->ready() && !F->ready() && !A->ready() && !B->ready(), 20);   // reset(): nothing published any more
  one_run(30);                                                              // the same graph instance gives the same guarantees again
}
