// C05 (concurrent, unit level): the dependency counter protocol (+1/+2 on activation, -1/-2 on readiness, terminal values 0
// and -1) under every ordering of activate / condition-ready / target-ready. Graph built by the real GraphBuilder in vf_init:
//   P0 -> COND (bool), P1 -> A (u64),  V: a -> A on|unless COND [, b -> A]  emits X;  target X.
// Thread 0 runs the real graph->run(X) (activation); threads 1 and 2 inject COND and (VF_INJECT_A) A externally through the real
// GraphData emit()/release() path. The harness executor only RECORDS each vertex invocation (the handed-over vertex closure
// is parked and never run), so the scenario isolates: exactly one invocation of V, and only after its dependencies are ready.
#include "babylon/anyflow/builder.h"
#include "vf.h"
using namespace babylon::anyflow;
uint64_t invoked[3]; uint64_t dep_ready_at_invoke[2]; uint64_t dep_established_at_invoke; uint64_t cond_ready_at_invoke, a_ready_at_invoke; uint64_t in;
struct P0 : public GraphProcessor { int process() noexcept override { return 0; } ANYFLOW_INTERFACE(ANYFLOW_EMIT_DATA(bool, x)) };
struct P1 : public GraphProcessor { int process() noexcept override { return 0; } ANYFLOW_INTERFACE(ANYFLOW_EMIT_DATA(uint64_t, x)) };
struct V : public GraphProcessor {
  int process() noexcept override { return 0; }
#if VF_TWO_DEPS
  ANYFLOW_INTERFACE(ANYFLOW_DEPEND_DATA(uint64_t, a, 0) ANYFLOW_DEPEND_DATA(uint64_t, b, 0) ANYFLOW_EMIT_DATA(uint64_t, x))
#else
  ANYFLOW_INTERFACE(ANYFLOW_DEPEND_DATA(uint64_t, a, 0) ANYFLOW_EMIT_DATA(uint64_t, x))
#endif
};
struct HarnessContext : public ClosureContext {
  using ClosureContext::ClosureContext;
  void wait_finish() noexcept override {} void wait_flush() noexcept override {}
  void notify_finish() noexcept override {} void notify_flush() noexcept override {}
};
GraphData* A; GraphData* COND; GraphData* X; GraphVertex* VV;
alignas(16) char parked_closure[3][sizeof(GraphVertexClosure)];
struct HarnessExecutor : public InplaceGraphExecutor {
  Closure create_closure() noexcept override { return Closure(new HarnessContext(*this)); }
  int run(GraphVertex* vertex, GraphVertexClosure&& closure) noexcept override {
    size_t k = vertex->index();
    __atomic_fetch_add(&invoked[k], 1, __ATOMIC_RELAXED);
    alignas(16) char park[sizeof(GraphVertexClosure)]; new (park) GraphVertexClosure(std::move(closure));      // parked for ever: never run, never destroyed
    if (k == 2) {
      dep_ready_at_invoke[0] = vertex->named_dependency(0)->ready(); dep_established_at_invoke = vertex->named_dependency(0)->established();
      if (VF_TWO_DEPS) dep_ready_at_invoke[1] = vertex->named_dependency(1)->ready();
      cond_ready_at_invoke = COND->ready(); a_ready_at_invoke = A->ready();
    }
    return 0;
  }
};
HarnessExecutor hexec; GraphBuilder* builder; Graph* graph; Closure* cl;
extern "C" void vf_init() {
  builder = new GraphBuilder; builder->set_executor(hexec);
  { auto& v = builder->add_vertex([] { return std::unique_ptr<P0>(new P0); }); v.named_emit("x").to("COND"); }
  { auto& v = builder->add_vertex([] { return std::unique_ptr<P1>(new P1); }); v.named_emit("x").to("A"); }
  { auto& v = builder->add_vertex([] { return std::unique_ptr<V>(new V); });
#if VF_UNLESS
    v.named_depend("a").to("A").unless("COND");
#else
    v.named_depend("a").to("A").on("COND");
#endif
#if VF_TWO_DEPS
    v.named_depend("b").to("A");
#endif
    v.named_emit("x").to("X"); }
  builder->finish();
  graph = builder->build().release();
  A = graph->find_data("A"); COND = graph->find_data("COND"); X = graph->find_data("X");
  VV = &graph->vertexes()[2];
  cl = new Closure;
}
extern "C" void vf_thread_0() { *cl = graph->run(X); }
extern "C" void vf_thread_1() { *COND->emit<bool>() = (bool)VF_COND; }
#if VF_INJECT_A
extern "C" void vf_thread_2() { in = vf_nondet64(); *A->emit<uint64_t>() = in; }
#endif
extern "C" void vf_final() {
  bool established = VF_UNLESS ? !VF_COND : (bool)VF_COND;
  vf_check(invoked[2] == 1, 1);                                  // exactly one notification: V is invoked once, whatever the order
  vf_check(cond_ready_at_invoke == 1, 2);                        // ... and only after the condition was evaluated
  vf_check(dep_established_at_invoke == (established ? 1 : 0), 3);
  if (established) { vf_check(a_ready_at_invoke == 1, 2); vf_check(dep_ready_at_invoke[0] == 1, 3); }   // and the target ready if the condition holds
  else vf_check(dep_ready_at_invoke[0] == 0, 3);
  if (VF_TWO_DEPS) { vf_check(a_ready_at_invoke == 1 && dep_ready_at_invoke[1] == 1, 4); }
  vf_check(invoked[0] <= 1 && invoked[1] <= 1, 5);               // producers activated at most once
  if (!established && !VF_TWO_DEPS) vf_check(invoked[1] == 0, 5); // A's producer is not needed: never activated
  if (VF_INJECT_A) vf_check(*A->value<uint64_t>() == in, 6);
  vf_check(COND->as<bool>() == (bool)VF_COND, 6);
}
