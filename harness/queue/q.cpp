// C01/C02: client programs for the real ConcurrentBoundedQueue<P2, VS>.  Thread bodies come from -DVF_T<i>=...
// Payload is two words written non-atomically (b == ~a): a consumer that sees a half-published element fails L2.
#include "babylon/concurrent/bounded_queue.h"
#include "vf.h"
struct P2 { uint64_t a, b; };
using Q = babylon::ConcurrentBoundedQueue<P2, VS>;
using It = Q::Iterator;
#ifndef VF_CAP
#define VF_CAP 2
#endif
#ifndef VF_C   // CONCURRENT
#define VF_C true
#endif
#ifndef VF_FW  // USE_FUTEX_WAIT
#define VF_FW true
#endif
#ifndef VF_FK  // USE_FUTEX_WAKE
#define VF_FK true
#endif
#ifndef VF_NT
#define VF_NT 4
#endif
#ifndef VF_NR
#define VF_NR 4
#endif
// producer-side and consumer-side wait/wake modes may differ (documented pairing rules)
#ifndef VF_PFW
#define VF_PFW VF_FW
#endif
#ifndef VF_PFK
#define VF_PFK VF_FK
#endif
#ifndef VF_CFW
#define VF_CFW VF_FW
#endif
#ifndef VF_CFK
#define VF_CFK VF_FK
#endif
#define VF_MAXT VF_NT
#define VF_MAXR VF_NR
Q* q;
uint64_t got[VF_MAXT][VF_MAXR]; uint64_t ngot[VF_MAXT];   // per consumer thread: values in pop order
uint64_t pushed[VF_MAXT * VF_MAXR]; uint64_t npushed[VF_MAXT]; uint64_t pv[VF_MAXT][VF_MAXR];
uint64_t flag[4];
static inline P2 mk(uint64_t v) { return P2{v, ~v}; }
static inline void rec(int t, const P2& x) { vf_check(x.b == ~x.a, 2); if (ngot[t] < VF_MAXR) got[t][ngot[t]] = x.a; ngot[t]++; }
static inline void recp(int t, uint64_t v) { if (npushed[t] < VF_MAXR) pv[t][npushed[t]] = v; npushed[t]++; }
// value pushed by thread t as its k-th element
#define VAL(t, k) ((uint64_t)((t + 1) * 16 + (k)))
#define PUSH(k) do { recp(T, VAL(T, k)); q->push<VF_C, VF_PFW, VF_PFK>(mk(VAL(T, k))); } while (0)
#define PUSHCB(k) do { recp(T, VAL(T, k)); q->push<VF_C, VF_PFW, VF_PFK>([&](P2& s) { s.a = VAL(T, k); s.b = ~VAL(T, k); }); } while (0)
#define POP() do { P2 x{0, 0}; q->pop<VF_C, VF_CFW, VF_CFK>(x); rec(T, x); } while (0)
#define POPCB() do { q->pop<VF_C, VF_CFW, VF_CFK>([&](P2& s) { rec(T, s); s.a = 0; s.b = 0; }); } while (0)
#define TRYPUSH(k) do { if (q->try_push<VF_C, VF_PFK>(mk(VAL(T, k)))) recp(T, VAL(T, k)); } while (0)
#define TRYPOP() do { P2 x{0, 0}; if (q->try_pop<VF_C, VF_CFK>(x)) rec(T, x); } while (0)
#define MUST_TRYPUSH(k) do { bool ok = q->try_push<VF_C, VF_PFK>(mk(VAL(T, k))); vf_check(ok, 5); if (ok) recp(T, VAL(T, k)); } while (0)
#define MUST_TRYPOP() do { P2 x{0, 0}; bool ok = q->try_pop<VF_C, VF_CFK>(x); vf_check(ok, 6); if (ok) rec(T, x); } while (0)
#define PUSHN(k0, n) do { P2 tmp[n]; for (int i = 0; i < n; ++i) { tmp[i] = mk(VAL(T, k0 + i)); recp(T, VAL(T, k0 + i)); } q->push_n<VF_C, VF_PFW, VF_PFK>(tmp, tmp + n); } while (0)
#define POPN(n) do { P2 tmp[n]; for (int i = 0; i < n; ++i) tmp[i] = P2{0, 0}; q->pop_n<VF_C, VF_CFW, VF_CFK>(tmp, tmp + n); for (int i = 0; i < n; ++i) rec(T, tmp[i]); } while (0)
#define TRYPOPN(n) do { q->try_pop_n<VF_C, VF_CFK>([&](It b, It e) { for (; b != e; ++b) rec(T, *b); }, n); } while (0)
#define TRYPUSHN(k0, n) do { int kk = k0; q->try_push_n<VF_C, VF_PFK>([&](It b, It e) { for (; b != e; ++b) { *b = mk(VAL(T, kk)); recp(T, VAL(T, kk)); ++kk; } }, n); } while (0)
// single-producer (CONCURRENT=false) batch try_push, and a pop whose callback is parked until flag i is raised (a consumer
// still inside its pop on one slot while others complete later tickets: consumers finishing out of ticket order)
#define TRYPUSHN_NC(k0, n) do { int kk = k0; q->try_push_n<false, VF_PFK>([&](It b, It e) { for (; b != e; ++b) { *b = mk(VAL(T, kk)); recp(T, VAL(T, kk)); ++kk; } }, n); } while (0)
#define POPCB_AWAIT(i) do { q->pop<VF_C, VF_CFW, VF_CFK>([&](P2& s) { rec(T, s); AWAIT(i); s.a = 0; s.b = 0; }); } while (0)
// release/acquire hand-over between harness threads (the acquire side only explores executions where it saw the flag)
#define SIGNAL(i) __atomic_store_n(&flag[i], 1, __ATOMIC_RELEASE)
#define AWAIT(i) vf_assume(__atomic_load_n(&flag[i], __ATOMIC_ACQUIRE) == 1)
#define BODY(n) extern "C" void vf_thread_##n() { constexpr int T = n; (void)T; VF_T##n; }
#ifndef VF_QINIT
#define VF_QINIT (void)0
#endif
extern "C" void vf_init() { q = new Q(VF_CAP); VF_QINIT; }
#ifdef VF_T0
BODY(0)
#endif
#ifdef VF_T1
BODY(1)
#endif
#ifdef VF_T2
BODY(2)
#endif
#ifdef VF_T3
BODY(3)
#endif
extern "C" void vf_final() {
  // nothing lost, duplicated or invented: every recorded push is popped exactly once (or still queued if VF_LEFT)
  uint64_t np = 0, nc = 0;
  for (int t = 0; t < VF_MAXT; ++t) { np += npushed[t]; nc += ngot[t]; vf_check(ngot[t] <= VF_MAXR && npushed[t] <= VF_MAXR, 9); }
#ifndef VF_LEFT
  vf_check(np == nc, 1);
#else
  vf_check(np == nc + q->size(), 1);
#endif
  for (int t = 0; t < VF_MAXT; ++t) for (uint64_t k = 0; k < VF_MAXR; ++k) if (k < npushed[t]) {
    uint64_t v = pv[t][k], cnt = 0;
    for (int c = 0; c < VF_MAXT; ++c) for (uint64_t j = 0; j < VF_MAXR; ++j) if (j < ngot[c] && got[c][j] == v) cnt++;
#ifndef VF_LEFT
    vf_check(cnt == 1, 3);
#else
    vf_check(cnt <= 1, 3);
#endif
  }
  for (int c = 0; c < VF_MAXT; ++c) for (uint64_t j = 0; j < VF_MAXR; ++j) if (j < ngot[c]) {
    uint64_t v = got[c][j]; uint64_t t = (v >> 4) - 1, k = v & 15;
    vf_check(t < VF_MAXT && k < npushed[t < VF_MAXT ? t : 0] && pv[t < VF_MAXT ? t : 0][k < VF_MAXR ? k : 0] == v, 7);   // not invented
    // order: two pops of one consumer thread, two pushes of one producer thread => same order
    for (uint64_t i = 0; i < j; ++i) { uint64_t w = got[c][i]; if ((w >> 4) == (v >> 4)) vf_check((w & 15) < (v & 15), 4); }
  }
}
