// C16 (sequential, symbolic fault schedule): the executor refuses a symbolic subset of the first launches; at the moment
// of a refusal another producer may get in (re-entrant execute() from inside invoke(): exactly the window between a refused
// submit and the event-counter CAS). Afterwards the executor recovers: one more accepted execute() must drain everything.
#include "babylon/concurrent/execution_queue.h"
#include "vf.h"
using Q = babylon::ConcurrentExecutionQueue<uint64_t, VS>;
using Fn = babylon::MoveOnlyFunction<void(void)>;
Q* q; uint64_t consumed[8]; uint64_t nconsumed; uint64_t pushed; uint64_t ninvoke; uint64_t refuse_mask, inject_mask; uint64_t in_consumer;
struct HX : public babylon::Executor {
  int invoke(Fn&& f) noexcept override {
    uint64_t k = ninvoke++;
    if (k < 3 && ((refuse_mask >> k) & 1)) {
      if ((inject_mask >> k) & 1) { pushed++; q->execute((uint64_t)(100 + k)); }      // another producer gets in right here
      return -1;
    }
    f(); return 0;
  }
};
HX hx;
extern "C" void vf_init() {
  q = new Q;
  q->initialize(8, hx, [](Q::Iterator b, Q::Iterator e) {
    vf_check(in_consumer == 0, 2); in_consumer = 1;
    for (; b != e; ++b) { uint64_t n = nconsumed; if (n < 8) consumed[n] = *b; nconsumed = n + 1; }
    in_consumer = 0;
  });
}
extern "C" void vf_thread_0() {
  refuse_mask = vf_nondet64() & 7; inject_mask = vf_nondet64() & 7;
  pushed++; int r1 = q->execute((uint64_t)1);
  pushed++; int r2 = q->execute((uint64_t)2);
  vf_check((r1 == 0 || r1 == -1) && (r2 == 0 || r2 == -1), 6);
  refuse_mask = 0;                                  // the executor has recovered
  pushed++; int r3 = q->execute((uint64_t)3);
  vf_check(r3 == 0, 6);
  vf_check(nconsumed == pushed, 1);                 // nothing stranded: the accepted signal resumed consumption of everything pending
  int p1 = -1, p2 = -1, p3 = -1;
  for (int i = 0; i < 8; ++i) if ((uint64_t)i < nconsumed) { if (consumed[i] == 1) p1 = i; if (consumed[i] == 2) p2 = i; if (consumed[i] == 3) p3 = i; }
  vf_check(p1 >= 0 && p1 < p2 && p2 < p3, 4);       // exactly once, in submission order
}
