// C16: ConcurrentExecutionQueue<uint64_t, VS> with a harness Executor whose invoke() runs inline, parks the consumer
// for another thread, or refuses the launch (symbolic fault schedule).
#include "babylon/concurrent/execution_queue.h"
#include "vf.h"
using Q = babylon::ConcurrentExecutionQueue<uint64_t, VS>;
using Fn = babylon::MoveOnlyFunction<void(void)>;
Q* q;
uint64_t consumed[8]; uint64_t nconsumed; uint64_t in_consumer; uint64_t ret[4][4];
Fn parked[4]; uint64_t nparked; uint64_t parkflag[4]; uint64_t ran[4]; uint64_t flag[4];
uint64_t refusals_left;
#ifndef VF_MODE
#define VF_MODE 0      // 0 inline, 1 park, 2 inline but the first VF_REFUSE launches may be refused (solver's choice)
#endif
#ifndef VF_REFUSE
#define VF_REFUSE 1
#endif
struct HX : public babylon::Executor {
  int invoke(Fn&& f) noexcept override {
    if (VF_MODE == 3) {          // the first VF_REFUSE launches are refused, later ones run inline (deterministic fault schedule)
      uint64_t left = __atomic_load_n(&refusals_left, __ATOMIC_RELAXED);
      while (left > 0) { if (__atomic_compare_exchange_n(&refusals_left, &left, left - 1, false, __ATOMIC_RELAXED, __ATOMIC_RELAXED)) return -1; }
      f(); return 0;
    }
    if (VF_MODE == 2) {
      uint64_t left = __atomic_load_n(&refusals_left, __ATOMIC_RELAXED);
      if (left > 0 && (vf_nondet64() & 1)) { __atomic_store_n(&refusals_left, left - 1, __ATOMIC_RELAXED); return -1; }
      f(); return 0;
    }
    if (VF_MODE == 1) {
      uint64_t k = __atomic_fetch_add(&nparked, 1, __ATOMIC_RELAXED);
      if (k >= 4) { vf_check(false, 9); return -1; }
      parked[k] = std::move(f);
      __atomic_store_n(&parkflag[k], 1, __ATOMIC_RELEASE);
      return 0;
    }
    f(); return 0;
  }
};
HX hx;
#define SIGNAL(i) __atomic_store_n(&flag[i], 1, __ATOMIC_RELEASE)
#define AWAIT(i) vf_assume(__atomic_load_n(&flag[i], __ATOMIC_ACQUIRE) == 1)
#define EXEC(k, v) do { ret[T][k] = (uint64_t)(int64_t)q->execute((uint64_t)(v)); } while (0)
#define SIGNAL_ONLY(k) do { ret[T][k] = (uint64_t)(int64_t)q->signal_push_event(); } while (0)
#define RUN_PARKED(k) do { vf_assume(__atomic_load_n(&parkflag[k], __ATOMIC_ACQUIRE) == 1); parked[k](); ran[k] = 1; } while (0)
// a launched consumer does run eventually: the LATE thread starts after the listed threads finished and runs what is left
#define LATE2(a, b) do { AWAIT(a); AWAIT(b); for (int k = 0; k < 3; ++k) if (__atomic_load_n(&parkflag[k], __ATOMIC_ACQUIRE) == 1 && ran[k] == 0) { parked[k](); ran[k] = 1; } } while (0)
#define TRY_RUN_PARKED(k) do { if (__atomic_load_n(&parkflag[k], __ATOMIC_ACQUIRE) == 1) { parked[k](); ran[k] = 1; } } while (0)
#define JOIN_THEN_CHECK(n) do { q->join(); vf_check(__atomic_load_n(&nconsumed, __ATOMIC_RELAXED) >= (n), 5); } while (0)
#define BODY(n) extern "C" void vf_thread_##n() { constexpr int T = n; (void)T; VF_T##n; }
extern "C" void vf_init() {
  q = new Q; refusals_left = VF_REFUSE;
  q->initialize(VF_CAP, hx, [](Q::Iterator b, Q::Iterator e) {
    vf_check(in_consumer == 0, 2); in_consumer = 1;                 // never two consumers at once (plain accesses)
    for (; b != e; ++b) { uint64_t n = nconsumed; if (n < 8) consumed[n] = *b; nconsumed = n + 1; }
    in_consumer = 0;
  });
}
#ifdef VF_T0
BODY(0)
#endif
#ifdef VF_T1
BODY(1)
#endif
#ifdef VF_T2
BODY(2)
#endif
#ifdef VF_T3
BODY(3)
#endif
extern "C" void vf_final() {
  // the oracle applies to quiescent states: every consumer the executor accepted has run to completion
  bool allran = true; for (uint64_t k = 0; k < 4; ++k) if (k < nparked && ran[k] == 0) allran = false;
  if (!allran) return;
  VF_FINAL;
}
