// C07 (sequential, re-entrant): the real ThreadPoolExecutor::start() / stop() / keep_execute() / keep_balance() with the pool's
// std::threads played by the harness (std::thread::_M_start_thread / join are defined HERE, so the engine and the native
// replay both run this model instead of spawning OS threads):
//   * the worker is the thread that calls keep_execute() below (outermost frame);
//   * task A, running on that worker, spawns child C (-> the worker's local queue) and is then "pre-empted": at that point
//     another thread calls the real pool->stop() (performed re-entrantly, with the runner marker cleared);
//   * inside stop(), join(balance thread) = the balance thread, which was in its sleep when stop() cleared _running, wakes
//     up and performs its last steal pass (the real keep_balance(), entered with the flag momentarily restored and dropped
//     again by the sleep hook); join(worker) = nothing to run now: the worker finishes after A returns.
// Oracle when the worker has returned (= stop()'s join completes): every accepted task ran exactly once, on the pool.
#include "babylon/executor.h"
#include "vf.h"
#include <thread>
#include <time.h>
using namespace babylon;
ThreadPoolExecutor* pool; uint64_t ran[3]; uint64_t in_pool[3]; uint64_t armed; uint64_t nstarted; uint64_t in_balance_sleep;
uint64_t stop_returned, balance_joined, workers_joined; int ret_a = -1, ret_c = -1;
static void join_hook(std::thread* t);
namespace std {
void thread::_M_start_thread(_State_ptr state, void (*)()) { (void)state.release(); _M_id._M_thread = ++nstarted; }
void thread::join() { join_hook(this); _M_id = id(); }
}
static void join_hook(std::thread* t) {
  if (t == &pool->_balance_thread) {
    balance_joined++;
    pool->_running.store(true, std::memory_order_relaxed); in_balance_sleep = 1;      // "it was sleeping": see nanosleep below
    pool->keep_balance();
  } else workers_joined++;
}
extern "C" int nanosleep(const struct timespec*, struct timespec*) {
  if (in_balance_sleep) { in_balance_sleep = 0; pool->_running.store(false, std::memory_order_relaxed); }
  return 0;
}
extern "C" void vf_init() {
  pool = new ThreadPoolExecutor; pool->set_worker_number(1); pool->set_global_capacity(4); pool->set_local_capacity(VF_LOCAL);
#if VF_BALANCE
  pool->set_balance_interval(std::chrono::microseconds(50));
#endif
  pool->start();
}
extern "C" void vf_thread_0() {
  uint64_t spawn = vf_nondet64() & 1;
  armed = 1;
  ret_a = pool->submit([spawn] {
    ran[0]++; in_pool[0] = pool->is_running_in();
    if (spawn) ret_c = pool->submit([] { ran[1]++; in_pool[1] = pool->is_running_in(); });
    if (armed) {                                   // pre-empted here: another thread stops the pool
      armed = 0;
      BasicExecutor* me = BasicExecutor::current(); BasicExecutor::current() = nullptr;
      pool->stop(); stop_returned = 1;
      BasicExecutor::current() = me;
    }
  });
  vf_check(ret_a == 0, 4);
  (void)pool->_local_task_queues.local();
  pool->keep_execute();                            // the worker thread; returns when it pops a STOP token
  vf_check(stop_returned == 1, 5); vf_check(workers_joined == 1, 6); vf_check(balance_joined == VF_BALANCE, 7);
  vf_check(ran[0] == 1 && in_pool[0] == 1, 2);
  if (spawn) { vf_check(ret_c == 0, 8); vf_check(ran[1] == 1, 3); vf_check(in_pool[1] == 1, 3); }   // the spawned task is not lost behind the STOP token
  else vf_check(ran[1] == 0, 3);
}
