// C07: ThreadPoolExecutor: the real keep_execute() worker loop(s), real submit()/execute() and the STOP markers of stop()
// (join == worker returned). The pool is start()ed with 0 OS threads; harness threads play the workers.
#include "babylon/executor.h"
#include "vf.h"
using namespace babylon;
ThreadPoolExecutor* pool; uint64_t ran[4]; uint64_t in_pool[4]; uint64_t worker_done[2]; uint64_t ret[4]; uint64_t flag[4];
#define SIGNAL(i) __atomic_store_n(&flag[i], 1, __ATOMIC_RELEASE)
#define AWAIT(i) vf_assume(__atomic_load_n(&flag[i], __ATOMIC_ACQUIRE) == 1)
#define SUBMIT(k) do { ret[k] = (uint64_t)(int64_t)pool->submit([] { __atomic_fetch_add(&ran[k], 1, __ATOMIC_RELAXED); in_pool[k] = pool->is_running_in() ? 1 : 0; }); } while (0)
// a task that spawns a child task from inside the pool (goes to the worker's local queue)
#define SUBMIT_SPAWNING(k, c) do { ret[k] = (uint64_t)(int64_t)pool->submit([] { __atomic_fetch_add(&ran[k], 1, __ATOMIC_RELAXED); \
    pool->submit([] { __atomic_fetch_add(&ran[c], 1, __ATOMIC_RELAXED); in_pool[c] = pool->is_running_in() ? 1 : 0; }); }); } while (0)
#define STOP_MARKS(n) do { pool->_running.store(false, std::memory_order_release); for (int i = 0; i < (n); ++i) pool->_global_task_queue.push<true, false, true>(ThreadPoolExecutor::Task {.type = ThreadPoolExecutor::TaskType::STOP, .function {}}); } while (0)
#define JOIN(w) vf_assume(__atomic_load_n(&worker_done[w], __ATOMIC_ACQUIRE) == 1)
#define WORKER(w) do { pool->keep_execute(); __atomic_store_n(&worker_done[w], 1, __ATOMIC_RELEASE); } while (0)
// LOCAL_TASK(k): what enqueue_task does for a task submitted from inside worker 1 (its local queue), done as thread 1 in set-up
#define LOCAL_TASK(k) pool->_local_task_queues.local().push<false, false, false>(ThreadPoolExecutor::Task {.type = ThreadPoolExecutor::TaskType::FUNCTION, .function {[] { __atomic_fetch_add(&ran[k], 1, __ATOMIC_RELAXED); in_pool[k] = pool->is_running_in() ? 1 : 0; }}})
#define GLOBAL_STOP() pool->_global_task_queue.push<true, false, true>(ThreadPoolExecutor::Task {.type = ThreadPoolExecutor::TaskType::STOP, .function {}})
// what a stealing worker / the balance thread does to ANOTHER worker's local queue (the very call in keep_execute's steal loop),
// played by a harness thread on worker 1's queue (lq is taken in set-up as thread 1)
ThreadPoolExecutor::Task* dummy_task_type; decltype(&((ThreadPoolExecutor*)nullptr)->_local_task_queues.local()) lq; uint64_t stolen;
#define STEAL_ONCE() do { ThreadPoolExecutor::Task task; if (lq->try_pop<true, false>(task)) { stolen++; if (task.type == ThreadPoolExecutor::TaskType::FUNCTION) task.function(); } } while (0)
#define BODY(n) extern "C" void vf_thread_##n() { VF_T##n; }
extern "C" void vf_init() { pool = new ThreadPoolExecutor; pool->set_worker_number(0); pool->set_global_capacity(2); pool->set_local_capacity(VF_LOCAL);
#ifdef VF_STEAL
  pool->set_enable_work_stealing(true);
#endif
  pool->start();
#ifdef VF_INIT_EXTRA
  VF_INIT_EXTRA;
#endif
}
#ifdef VF_T0
BODY(0)
#endif
#ifdef VF_T1
BODY(1)
extern "C" void vf_prologue_1() { lq = &pool->_local_task_queues.local();
#ifdef VF_PRO1
  VF_PRO1;
#endif
}
#endif
#ifdef VF_T2
BODY(2)
extern "C" void vf_prologue_2() { (void)pool->_local_task_queues.local(); }
#endif
extern "C" void vf_final() { VF_FINAL; }
