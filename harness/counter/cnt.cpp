// C19 (sequential thread generations): counters / enumerable thread-locals across thread exit, thread-id reuse and
// counter-instance recycling. Generation k runs on its own logical thread after generation k-1 has exited
// (its thread_local destructors have run). Contributions are symbolic.
#include "babylon/concurrent/counter.h"
#include "vf.h"
using namespace babylon;
ConcurrentAdder* A; ConcurrentMaxer* MX; ConcurrentMiner* MN; ConcurrentSummer* SM; ConcurrentAdder* B;
EnumerableThreadLocal<uint64_t>* TL;
int64_t x0, x1, m0, m1; uint64_t* loc0; uint64_t* loc1;
static int64_t small(int64_t lim) { int64_t v = (int64_t)vf_nondet64(); vf_assume(v >= -lim && v <= lim); return v; }
extern "C" void vf_init() { A = new ConcurrentAdder; MX = new ConcurrentMaxer; MN = new ConcurrentMiner; SM = new ConcurrentSummer; TL = new EnumerableThreadLocal<uint64_t>; }
extern "C" void vf_thread_0() {                 // first worker thread
  x0 = small(1000); m0 = (int64_t)vf_nondet64();
  *A << x0; *A << 1;
  *MX << m0; *MN << m0;
  *SM << ConcurrentSummer::Summary{x0, 1};
  loc0 = &TL->local(); *loc0 = 7;
  vf_check(&TL->local() == loc0, 3);              // local() is stable within a thread
  vf_check(A->value() == x0 + 1, 1);
}
extern "C" void vf_seq_1() {                    // a new thread after the first one exited: it re-uses the dead thread's id
  x1 = small(1000); m1 = (int64_t)vf_nondet64();
  *A << x1;
  vf_check(A->value() == x0 + 1 + x1, 1);        // contribution of the exited thread still counted, nothing lost on slot reuse
  *MX << m1; *MN << m1;
  vf_check(MX->value() == (m0 > m1 ? m0 : m1), 2);
  vf_check(MN->value() == (m0 < m1 ? m0 : m1), 2);
  *SM << ConcurrentSummer::Summary{x1, 1};
  auto s = SM->value(); vf_check(s.sum == x0 + x1 && s.num == 2, 1);
  loc1 = &TL->local();
  uint64_t all = 0, alive = 0;
  TL->for_each([&](uint64_t* b, uint64_t* e) { for (; b != e; ++b) all++; });
  TL->for_each_alive([&](uint64_t* b, uint64_t* e) { for (; b != e; ++b) alive++; });
  vf_check(all >= 1 && alive == 1, 4);            // every slot ever used / exactly the live thread's
  MX->reset(); MN->reset();
  bool has; int64_t tmp = 0; has = MX->value(tmp); vf_check(!has, 2);      // new period: nothing recorded yet
}
extern "C" void vf_seq_2() {                    // instance churn: A dies, B recycles its storage
  delete A;
  B = new ConcurrentAdder;
  vf_check(B->value() == 0, 5);                   // a new counter starts from zero
  *B << 3; vf_check(B->value() == 3, 5);
  *MX << m0; vf_check(MX->value() == m0, 2);
}
