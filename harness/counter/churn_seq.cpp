// C19 (sequential, re-entrant): instance churn inside the window of another instance's destructor. The counters are built on
// CompactEnumerableThreadLocal<T, N>: instances share cache lines, each owning one column (its instance id). The element type
// here has a default constructor that is a scheduling hook: the destructor's wipe loop (`slot = T()`) calls it, and the hook
// creates a NEW instance and counts into it - exactly what another thread may do while the destructor is running. The new
// instance must start from zero and keep what was put into it (the dying instance's id must not be recyclable before its
// column has been wiped).
#include "babylon/concurrent/thread_local.h"
#include "vf.h"
static void hook();
struct Hooked { int64_t v; Hooked() noexcept : v(0) { hook(); } };
using TL = babylon::CompactEnumerableThreadLocal<Hooked, 1>;
static TL* X; static TL* Y; static bool armed; static int64_t first = -1; static int64_t add;
static void hook() {
  if (!armed) return;
  armed = false;
  Y = new TL; first = Y->local().v; Y->local().v += add;
}
extern "C" void vf_init() { X = new TL; X->local().v = 7; }
extern "C" void vf_thread_0() {
  add = (int64_t)vf_nondet64(); vf_assume(add > 0 && add < 1000);
  X->local().v = 9;                          // this thread has a slot too: two slots hold leftovers of X
  armed = true;
  delete X;                                  // wipe loop -> Hooked() -> hook(): Y is created and used in the middle of ~X
  vf_check(Y != nullptr, 1);
  vf_check(first == 0, 2);                   // a newly created instance starts from zero
  vf_check(Y->local().v == add, 3);          // and keeps exactly what was added
  int64_t sum = 0; Y->for_each([&](Hooked& h) { sum += h.v; });
  vf_check(sum == add, 3);
  TL* Z = new TL;                            // after X is gone its column may be recycled: still zero
  vf_check(Z->local().v == 0, 4);
}
