// C19 (sequential thread generations): EnumerableThreadLocal / CompactEnumerableThreadLocal instances that are moved
// (move-assigned, move-constructed, swapped through a temporary) while a thread already holds a cached local() of them.
// local() must stay private to (thread, instance): what a thread writes through a.local() is what for_each over a
// reports, never what another instance reports - before and after moves, on the moving thread (warm one-entry cache)
// and on a later thread generation that reuses the dead thread's id.
#include "babylon/concurrent/thread_local.h"
#include "vf.h"
using namespace babylon;
using TL = EnumerableThreadLocal<uint64_t>;
using CTL = CompactEnumerableThreadLocal<uint64_t>;
TL* a; TL* b; CTL* ca; CTL* cb;
uint64_t va, vb, vca, vcb;
static uint64_t sum(CTL* x, uint64_t* slots) { uint64_t s = 0, n = 0; x->for_each([&](uint64_t& v) { s += v; n++; }); if (slots) *slots = n; return s; }
static uint64_t sum(TL* x, uint64_t* slots) {
  uint64_t s = 0, n = 0; x->for_each([&](uint64_t* i, uint64_t* e) { for (; i != e; ++i) { s += *i; n++; } }); if (slots) *slots = n; return s;
}
extern "C" void vf_init() { a = new TL; b = new TL; ca = new CTL; cb = new CTL; }
extern "C" void vf_thread_0() {
  va = vf_nondet64() & 0xffff; vb = vf_nondet64() & 0xffff;
  uint64_t which = vf_nondet64(); vf_assume(which < 4);         // which instance the thread's one-entry cache names when the move happens
  b->local() = vb; a->local() = va;                              // cache: a
  if (which & 1) { (void)b->local(); }                           // cache: b
  uint64_t mv = vf_nondet64(); vf_assume(mv < 3);
  if (mv == 0) { *a = static_cast<TL&&>(*b); uint64_t t = va; va = vb; vb = t; }          // move assignment exchanges the two instances
  else if (mv == 1) { TL tmp(static_cast<TL&&>(*a)); *a = static_cast<TL&&>(*b); *b = static_cast<TL&&>(tmp); uint64_t t = va; va = vb; vb = t; }
  else { /* no move */ }
  if (which & 2) {
    vf_check(a->local() == va, 1);                               // the thread's slot of a holds what a's history says
    a->local() += 5; va += 5;
    vf_check(b->local() == vb, 1);
  } else {
    vf_check(b->local() == vb, 1);
    b->local() += 3; vb += 3;
    a->local() += 5; va += 5;
  }
  vf_check(&a->local() != &b->local(), 2);                       // private per instance
  vf_check(sum(a, nullptr) == va, 3); vf_check(sum(b, nullptr) == vb, 3);
  // compact variant (several instances share one storage cache line)
  vca = vf_nondet64() & 0xffff; vcb = vf_nondet64() & 0xffff;
  ca->local() = vca; cb->local() = vcb;
  if (mv == 0) { *ca = static_cast<CTL&&>(*cb); uint64_t t = vca; vca = vcb; vcb = t; }
  ca->local() += 1; vca += 1;
  vf_check(&ca->local() != &cb->local(), 2);
  vf_check(sum(ca, nullptr) == vca && sum(cb, nullptr) == vcb, 4);
}
extern "C" void vf_seq_1() {                    // a new thread (reusing the exited thread's id) sees the moved instances consistently
  uint64_t na = 0, nb = 0;
  vf_check(sum(a, &na) == va, 5); vf_check(sum(b, &nb) == vb, 5);
  vf_check(a->local() == va, 6);                  // same thread id => same slot => the dead thread's value is still there (documented reuse)
  a->local() = 9; vf_check(sum(a, nullptr) == 9 && sum(b, nullptr) == vb, 6);
  uint64_t alive = 0; a->for_each_alive([&](uint64_t* i, uint64_t* e) { for (; i != e; ++i) alive++; }); vf_check(alive == 1, 7);
}
