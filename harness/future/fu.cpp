// C08: FutureContext / Promise / Future / CountDownLatch with the harness scheduling interface VS.
// Value = two words written by the constructor (b == ~a): a waiter/callback that sees a half-built value fails L2.
#include "babylon/future.h"
#include "vf.h"
#include <chrono>
struct P2 { uint64_t a, b; P2(uint64_t v) noexcept : a(v), b(~v) {} };
using Ctx = babylon::FutureContext<P2, VS>;
Ctx* c;
uint64_t calls[4]; uint64_t seen[4]; uint64_t got[4]; uint64_t ret[4]; uint64_t flag[4]; uint64_t set_done;
#define SIGNAL(i) __atomic_store_n(&flag[i], 1, __ATOMIC_RELEASE)
#define AWAIT(i) vf_assume(__atomic_load_n(&flag[i], __ATOMIC_ACQUIRE) == 1)
#define SET(v) do { c->set_value((uint64_t)(v)); } while (0)
#define ONFIN(i) do { c->on_finish([](P2& x) { vf_check(x.b == ~x.a, 2); seen[i] = x.a; calls[i] += 1; }); } while (0)
#define GET(i) do { P2& x = c->get(); vf_check(x.b == ~x.a, 2); got[i] = x.a; } while (0)
#define READY_THEN_GET(i) do { if (c->ready(std::memory_order_acquire)) { P2& x = c->get(); vf_check(x.b == ~x.a && x.a == 42, 5); } } while (0)
// wait_for with an arbitrary (zero / negative / huge) timeout; harness clock brackets the call
#define WAITFOR(i) do { int64_t to = (int64_t)vf_nondet64(); VF_TO_ASSUME; uint64_t t0 = vf_now_ns(); \
    bool r = c->wait_for(std::chrono::nanoseconds(to)); uint64_t t1 = vf_now_ns(); ret[i] = r ? 1 : 2; \
    if (r) { vf_check(c->ready(std::memory_order_acquire), 3); P2& x = c->get(); vf_check(x.b == ~x.a && x.a == 42, 2); } \
    else { vf_check(to <= 0 || t1 - t0 >= (uint64_t)to, 4); } } while (0)
// wait_for with a zero timeout: times out at once unless the value is there (the time-out exit path racing set_value)
#define WAITFOR0(i) do { bool r = c->wait_for(std::chrono::nanoseconds(0)); ret[i] = r ? 1 : 2; \
    if (r) { vf_check(c->ready(std::memory_order_acquire), 3); P2& x = c->get(); vf_check(x.b == ~x.a && x.a == 42, 2); } } while (0)
#ifndef VF_TO_ASSUME
#define VF_TO_ASSUME (void)0
#endif
extern "C" void vf_init() { c = new Ctx; }
#define BODY(n) extern "C" void vf_thread_##n() { VF_T##n; }
#ifdef VF_T0
BODY(0)
#endif
#ifdef VF_T1
BODY(1)
#endif
#ifdef VF_T2
BODY(2)
#endif
#ifdef VF_T3
BODY(3)
#endif
extern "C" void vf_final() {
#ifdef VF_FINAL
  VF_FINAL;
#endif
}
