// C08 (sequential): CountDownLatch with a symbolic initial count n (0..4) counted down in two symbolic steps k1, n-k1
// (count_down(k) with k > 1 included): the future is ready exactly when the count has reached zero, a callback registered
// before runs exactly once at that moment, one registered afterwards runs at once.
#include "babylon/future.h"
#include "vf.h"
using L = babylon::CountDownLatch<VS>;
uint64_t calls[2];
extern "C" void vf_init() {}
extern "C" void vf_thread_0() {
  uint64_t n = vf_nondet64(), k1 = vf_nondet64(); vf_assume(n <= 4 && k1 <= n);
  L latch(n);
  auto fut = latch.get_future();
  vf_check(fut.ready() == (n == 0), 1);                         // a zero count is ready from the start
  fut.on_finish([](size_t&) { calls[0] += 1; });
  vf_check(calls[0] == (n == 0 ? 1 : 0), 2);
  if (k1 > 0) latch.count_down(k1);
  vf_check(fut.ready() == (k1 == n), 1);                        // ready exactly when the count reached zero
  vf_check(calls[0] == (k1 == n ? 1 : 0), 2);
  if (n - k1 > 0) latch.count_down(n - k1);
  vf_check(fut.ready(), 1);
  vf_check(fut.wait_for(std::chrono::nanoseconds(0)), 1);
  vf_check(calls[0] == 1, 2);
  fut.on_finish([](size_t&) { calls[1] += 1; });
  vf_check(calls[1] == 1 && calls[0] == 1, 2);
  (void)fut.get();
}
