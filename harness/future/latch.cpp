// C08: CountDownLatch + Promise/Future (shared_ptr based public API) with VS.
#include "babylon/future.h"
#include "vf.h"
using L = babylon::CountDownLatch<VS>;
L* latch; babylon::Future<size_t, VS>* fut; uint64_t got, seen, calls, early;
uint64_t done[2];
extern "C" void vf_init() { latch = new L(2); fut = new babylon::Future<size_t, VS>(latch->get_future()); }
extern "C" void vf_thread_0() { __atomic_store_n(&done[0], 1, __ATOMIC_RELEASE); latch->count_down(); }
extern "C" void vf_thread_1() { __atomic_store_n(&done[1], 1, __ATOMIC_RELEASE); latch->count_down(); }
extern "C" void vf_thread_2() {
  fut->get();
  // ready exactly when the count reached zero: both decrements (and what preceded them) are visible
  vf_check(__atomic_load_n(&done[0], __ATOMIC_RELAXED) == 1 && __atomic_load_n(&done[1], __ATOMIC_RELAXED) == 1, 1);
}
