#include "babylon/future.h"
#include "vf.h"
using Ctx = babylon::FutureContext<uint64_t, VS>;
Ctx* c; uint64_t seen[2]; uint64_t calls[2]; uint64_t got;
extern "C" {
void vf_init() { c = new Ctx; }
void vf_thread_0() { c->set_value((uint64_t)42); }
void vf_thread_1() { c->on_finish([](uint64_t& v) { seen[0] = v; calls[0] += 1; }); }
void vf_thread_2() { got = c->get(); }
void vf_final() { vf_assert(calls[0] == 1); vf_assert(seen[0] == 42); vf_assert(got == 42); }
}
