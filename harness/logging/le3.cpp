#include "babylon/logging/log_entry.h"
#include "vf.h"
#include <vector>
#ifndef VF_PS
#define VF_PS 16
#endif
#ifndef VF_N
#define VF_N 40
#endif
#define VF_NP 24
alignas(64) char pool[VF_NP][VF_PS]; size_t npages; int seen[VF_NP];
struct PA : public babylon::PageAllocator {
  size_t page_size() const noexcept override { return VF_PS; }
  void allocate(void** pages, size_t n) noexcept override { for (size_t i = 0; i < n; ++i) { vf_check(npages < VF_NP, 9); pages[i] = pool[npages++]; } }
  void deallocate(void**, size_t) noexcept override {}
};
PA pa; babylon::LogStreamBuffer* buf; struct iovec iovs[64];
extern "C" {
void vf_init() { buf = new babylon::LogStreamBuffer; buf->set_page_allocator(pa); }
void vf_thread_0() {
  size_t n = vf_nondet64(); vf_assume(n <= VF_N);
#ifdef VF_FLUSH
  // the stream is flushed (std::flush / std::endl => pubsync) once at a symbolic position, possibly mid-page, and written on
  size_t f = vf_nondet64(); vf_assume(f <= n);
#endif
  buf->begin();
  for (size_t i = 0; i < n; ++i) {
#ifdef VF_FLUSH
    if (i == f) buf->pubsync();
#endif
    buf->sputc((char)(i + 1));
  }
#ifdef VF_FLUSH
  if (f == n) buf->pubsync();
#endif
  babylon::LogEntry& e = buf->end();
  vf_check(e.size == n, 1);
  // rebuild the scatter list with the real code
  struct iovec* out = iovs; size_t cnt = 0;
  {
    std::vector<struct iovec> iov; iov.reserve(64);
    e.append_to_iovec(VF_PS, iov);
    cnt = iov.size(); vf_check(cnt <= 64, 2);
    for (size_t i = 0; i < cnt && i < 64; ++i) out[i] = iov[i];
  }
  size_t total = 0;
  for (size_t i = 0; i < cnt && i < 64; ++i) {
    size_t k = ((char*)out[i].iov_base - &pool[0][0]) / VF_PS;
    vf_check(k < npages && (char*)out[i].iov_base == pool[k], 2);
    if (k < VF_NP) seen[k]++;
    vf_check(out[i].iov_len <= VF_PS, 2);
    for (size_t j = 0; j < out[i].iov_len && j < VF_PS; ++j) vf_check(((char*)out[i].iov_base)[j] == (char)(total + j + 1), 3);
    total += out[i].iov_len;
  }
  vf_check(total == n, 4);
  for (size_t k = 0; k < npages && k < VF_NP; ++k) vf_check(seen[k] == 1, 5);
}
}
