// C20 (b, sequential): the real AsyncFileAppender::write() x3, the stop marker of close(), then the real keep_writing()
// loop, all in one thread; entry lengths are symbolic (0..VF_MAXLEN each). Oracle: the "file" receives exactly the
// concatenation of the entries in order, every page is back with the allocator.
#include "babylon/logging/async_file_appender.h"
#include "babylon/logging/log_entry.h"
#include "vf.h"
#include <sys/uio.h>
using namespace babylon;
#define VF_PS 16
#ifndef VF_MAXLEN
#define VF_MAXLEN 2
#endif
alignas(64) char pool[12][VF_PS]; uint64_t nalloc, nfree; uint64_t page_out[12];
struct PA : public PageAllocator {
  size_t page_size() const noexcept override { return VF_PS; }
  void allocate(void** pages, size_t n) noexcept override { for (size_t i = 0; i < n; ++i) { uint64_t k = nalloc++; vf_check(k < 12, 9); pages[i] = pool[k < 12 ? k : 0]; } }
  void deallocate(void** pages, size_t n) noexcept override {
    for (size_t i = 0; i < n; ++i) { size_t k = ((char*)pages[i] - &pool[0][0]) / VF_PS; vf_check(k < 12 && (char*)pages[i] == pool[k < 12 ? k : 0], 6); if (k < 12) { vf_check(page_out[k] == 0, 6); page_out[k] = 1; } }
    nfree += n;
  }
};
struct FO : FileObject { std::tuple<int, int> check_and_get_file_descriptor() noexcept override { return std::tuple<int, int>{7, -1}; } };
PA pa; FO fo; AsyncFileAppender* ap; LogStreamBuffer* buf;
char filebuf[32]; uint64_t nfile;
extern "C" ssize_t writev(int fd, const struct iovec* iov, int cnt) {
  vf_check(fd == 7, 7);
  for (int i = 0; i < cnt && i < 8; ++i) for (size_t j = 0; j < iov[i].iov_len && j < VF_PS; ++j) { if (nfile < 32) filebuf[nfile] = ((const char*)iov[i].iov_base)[j]; nfile++; }
  return 0;
}
extern "C" int close(int) { return 0; }
extern "C" void vf_init() {
  ap = new AsyncFileAppender; ap->set_page_allocator(pa); ap->set_queue_capacity(4);
  buf = new LogStreamBuffer; buf->set_page_allocator(pa);
}
extern "C" void vf_thread_0() {
  uint64_t len[3]; char expect[8]; uint64_t nexp = 0;
  for (int k = 0; k < 3; ++k) { len[k] = vf_nondet64(); vf_assume(len[k] <= VF_MAXLEN); }
  for (int k = 0; k < 3; ++k) {
    buf->begin();
    for (uint64_t i = 0; i < len[k] && i < VF_MAXLEN; ++i) { char c = (char)('a' + 4 * k + i); buf->sputc(c); if (nexp < 8) expect[nexp] = c; nexp++; }
    LogEntry e = buf->end();
    ap->write(e, &fo);
  }
  ap->_queue.push<true, false, false>([](AsyncFileAppender::Item& t) { t.entry.size = 0; t.file = nullptr; });   // close() marker
  ap->keep_writing();
  vf_check(nfile == nexp, 1);
  for (uint64_t i = 0; i < nexp && i < 8; ++i) vf_check(filebuf[i < 32 ? i : 0] == expect[i], 1);
  vf_check(nfree == nalloc, 5);
}
