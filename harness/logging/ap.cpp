// C20 (b): AsyncFileAppender: real write() from logging threads, the real keep_writing() loop as the writer thread,
// close() = its stop-marker push (join is the end of the writer thread). writev/close/usleep are harness stubs.
#include "babylon/logging/async_file_appender.h"
#include "babylon/logging/log_entry.h"
#include "vf.h"
#include <sys/uio.h>
using namespace babylon;
#define VF_PS 16
#ifndef VF_QCAP
#define VF_QCAP 1
#endif
alignas(64) char pool[12][VF_PS]; uint64_t nalloc, nfree; uint64_t page_out[12];
struct PA : public PageAllocator {
  size_t page_size() const noexcept override { return VF_PS; }
  void allocate(void** pages, size_t n) noexcept override { for (size_t i = 0; i < n; ++i) { uint64_t k = __atomic_fetch_add(&nalloc, 1, __ATOMIC_RELAXED); vf_check(k < 12, 9); pages[i] = pool[k < 12 ? k : 0]; } }
  void deallocate(void** pages, size_t n) noexcept override {
    for (size_t i = 0; i < n; ++i) { size_t k = ((char*)pages[i] - &pool[0][0]) / VF_PS; vf_check(k < 12 && (char*)pages[i] == pool[k < 12 ? k : 0], 6); if (k < 12) { vf_check(page_out[k] == 0, 6); page_out[k] = 1; } }   // each page returned at most once
    __atomic_fetch_add(&nfree, n, __ATOMIC_RELAXED);
  }
};
struct FO : FileObject { std::tuple<int, int> check_and_get_file_descriptor() noexcept override { return std::tuple<int, int>{7, -1}; } };
PA pa; FO fo; AsyncFileAppender* ap; LogStreamBuffer* buf; LogEntry ent[4];
char filebuf[32]; uint64_t nfile; uint64_t flag[4]; uint64_t writer_done;
extern "C" ssize_t writev(int fd, const struct iovec* iov, int cnt) {
  vf_check(fd == 7, 7);
  for (int i = 0; i < cnt && i < 8; ++i) for (size_t j = 0; j < iov[i].iov_len && j < VF_PS; ++j) { if (nfile < 32) filebuf[nfile] = ((const char*)iov[i].iov_base)[j]; nfile++; }
  return 0;
}
extern "C" int close(int) { return 0; }
static LogEntry make(const char* s, size_t n) { buf->begin(); for (size_t i = 0; i < n; ++i) buf->sputc(s[i]); return buf->end(); }
#define SIGNAL(i) __atomic_store_n(&flag[i], 1, __ATOMIC_RELEASE)
#define AWAIT(i) vf_assume(__atomic_load_n(&flag[i], __ATOMIC_ACQUIRE) == 1)
#define WRITE(k) ap->write(ent[k], &fo)
// what close() does before joining the writer thread
#define CLOSE_MARK() ap->_queue.push<true, false, false>([](AsyncFileAppender::Item& t) { t.entry.size = 0; t.file = nullptr; })
#define WRITER() do { ap->keep_writing(); __atomic_store_n(&writer_done, 1, __ATOMIC_RELEASE); } while (0)
#define BODY(n) extern "C" void vf_thread_##n() { VF_T##n; }
extern "C" void vf_init() {
  ap = new AsyncFileAppender; ap->set_page_allocator(pa); ap->set_queue_capacity(VF_QCAP); ap->destination(&fo).iov.reserve(8);
  buf = new LogStreamBuffer; buf->set_page_allocator(pa);
  VF_INIT;
}
#ifdef VF_P0
extern "C" void vf_prologue_0() { VF_P0; }
#endif
#ifdef VF_P1
extern "C" void vf_prologue_1() { VF_P1; }
#endif
#ifdef VF_P2
extern "C" void vf_prologue_2() { VF_P2; }
#endif
#ifdef VF_T0
BODY(0)
#endif
#ifdef VF_T1
BODY(1)
#endif
#ifdef VF_T2
BODY(2)
#endif
extern "C" void vf_final() {
  vf_check(writer_done == 1, 8);
  VF_FINAL;
  vf_check(nfree == nalloc, 5);          // every page backing a written entry is back with the page allocator
}
