// C20 (sequential): AsyncFileAppender::write_use_plain_writev with a scatter list of N iovecs, N symbolic around IOV_MAX
// (1024): the kernel rejects a writev with more than IOV_MAX vectors (EINVAL, nothing written), so the list must be handed
// over in chunks. Oracle: every page's bytes reach the file exactly once and every page goes back to the allocator.
#include "babylon/logging/async_file_appender.h"
#include "vf.h"
#include <sys/uio.h>
#include <limits.h>
using namespace babylon;
#define VF_NMAX 1030
char pool[VF_NMAX + 2][4]; uint64_t nfree; uint64_t written_bytes; uint64_t rejected_calls;
struct PA : public PageAllocator {
  size_t page_size() const noexcept override { return 4; }
  void allocate(void** pages, size_t n) noexcept override { (void)pages; (void)n; }
  void deallocate(void** pages, size_t n) noexcept override { (void)pages; nfree += n; }
};
PA pa; AsyncFileAppender* ap; AsyncFileAppender::Destination* dest;
extern "C" ssize_t writev(int fd, const struct iovec* iov, int cnt) {
  (void)fd;
  if (cnt > IOV_MAX || cnt < 0) { rejected_calls++; return -1; }          // EINVAL: nothing is written
  ssize_t n = 0; for (int i = 0; i < cnt && i <= IOV_MAX; ++i) n += (ssize_t)iov[i].iov_len;
  written_bytes += (uint64_t)n; return n;
}
extern "C" void vf_init() {
  ap = new AsyncFileAppender; ap->set_page_allocator(pa);
  dest = new AsyncFileAppender::Destination {}; dest->iov.reserve(VF_NMAX + 8);
  for (uint64_t i = 0; i < 1020; ++i) dest->iov.push_back(iovec {pool[i], 1});
}
extern "C" void vf_thread_0() {
  uint64_t n = vf_nondet64(); vf_assume(n >= 1020 && n <= VF_NMAX);
  for (uint64_t i = 1020; i < n && i < VF_NMAX; ++i) dest->iov.push_back(iovec {pool[i], 1});
  ap->write_use_plain_writev(*dest, 7);
  vf_check(rejected_calls == 0, 1);              // no chunk larger than the kernel accepts
  vf_check(written_bytes == n, 2);               // everything written exactly once
  vf_check(nfree == n && dest->iov.empty(), 3);  // every page back with the allocator
}
