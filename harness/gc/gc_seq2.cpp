// C10 (sequential, re-entrant): a reader region opens and an object is retired WHILE the collector is in the middle of its
// queue intake (the reclaimer's move constructor is the scheduling hook: the intake moves reclaim tasks out of the queue).
// The queue's pop index is pre-advanced to the last ring slot so that the intake is a wrapped two-part pop and the object
// retired during the first part is consumed by the second part of the same intake. Oracle: that object's reclaimer must not
// run while the region (open at its retirement) is still open, and must have run exactly once when the collector returns.
#include "babylon/concurrent/garbage_collector.h"
#include "vf.h"
#include <unistd.h>
uint64_t invoked[3]; uint64_t open_at_invoke[3]; uint64_t region_open; uint64_t sleeps; uint64_t close_at; uint64_t armed;
babylon::Epoch::Accessor acc;
static void hook();
struct R { uint64_t id {9}; uint64_t live {0};
  R() = default; R(uint64_t i) : id(i), live(1) {}
  R(R&& o) noexcept : id(o.id), live(o.live) { o.live = 0; if (id == 0) hook(); }
  R& operator=(R&& o) noexcept { id = o.id; live = o.live; o.live = 0; return *this; }
  void operator()() noexcept { if (id < 3) { invoked[id] += 1; open_at_invoke[id] = region_open; } live = 0; } };
using GC = babylon::GarbageCollector<R>;
GC* gc;
static void hook() {
  if (!armed) return;
  armed = 0;
  acc.lock(); region_open = 1;                                           // another thread enters a critical region ...
  gc->retire(R{1});                                                      // ... and retires an object it can still see
  gc->_queue.template push<true, false, false>(GC::ReclaimTask {});      // stop(): marker
}
extern "C" int usleep(useconds_t) { sleeps++; if (region_open && sleeps == close_at) { region_open = 0; acc.unlock(); } return 0; }
extern "C" void vf_init() {
  gc = new GC; gc->set_queue_capacity(4); acc = gc->epoch().create_accessor();
  for (int i = 0; i < VF_PREADVANCE; ++i) {                              // advance the ring: next push / pop index = VF_PREADVANCE
    gc->_queue.template push<false, false, false>(GC::ReclaimTask {});
    GC::ReclaimTask t; gc->_queue.template pop<false, false, false>(t);
  }
}
extern "C" void vf_thread_0() {
  close_at = vf_nondet64(); vf_assume(close_at >= 1 && close_at <= 2);
  gc->retire(R{0});
  armed = 1;
  gc->keep_reclaim();
  vf_check(armed == 0, 1);
  vf_check(invoked[0] == 1 && invoked[1] == 1, 1);
  vf_check(open_at_invoke[1] == 0, 3);           // never early: the region open at R1's retirement had closed
  vf_check(region_open == 0, 1);
}
