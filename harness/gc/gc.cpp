// C10: GarbageCollector<R>: retire vs reader regions vs stop(); the collector thread is the real keep_reclaim().
// stop() = its stop-marker push; join = "the collector returned" (collector_done).
#include "babylon/concurrent/garbage_collector.h"
#include "vf.h"
uint64_t invoked[3]; uint64_t open_at_invoke[3]; uint64_t region_open[2]; uint64_t destroyed_uninvoked;
struct R { uint64_t id {0}; uint64_t live {0};
  R() = default; R(uint64_t i) : id(i), live(1) {}
  R(R&& o) noexcept : id(o.id), live(o.live) { o.live = 0; }
  R& operator=(R&& o) noexcept { id = o.id; live = o.live; o.live = 0; return *this; }
  void operator()() noexcept { if (id < 3) { invoked[id] += 1; open_at_invoke[id] = __atomic_load_n(&region_open[0], __ATOMIC_RELAXED); } live = 0; } };
using GC = babylon::GarbageCollector<R>;
GC* gc; babylon::Epoch::Accessor acc; uint64_t collector_done; uint64_t flag[4];
#define SIGNAL(i) __atomic_store_n(&flag[i], 1, __ATOMIC_RELEASE)
#define AWAIT(i) vf_assume(__atomic_load_n(&flag[i], __ATOMIC_ACQUIRE) == 1)
#define REGION_OPEN() do { acc.lock(); __atomic_store_n(&region_open[0], 1, __ATOMIC_RELAXED); } while (0)
#define REGION_CLOSE() do { __atomic_store_n(&region_open[0], 0, __ATOMIC_RELAXED); acc.unlock(); } while (0)
#define RETIRE(i) gc->retire(R{i})
#define STOP_MARK() gc->_queue.template push<true, false, false>(GC::ReclaimTask {})
#define JOIN() vf_assume(__atomic_load_n(&collector_done, __ATOMIC_ACQUIRE) == 1)
#define COLLECTOR() do { gc->keep_reclaim(); __atomic_store_n(&collector_done, 1, __ATOMIC_RELEASE); } while (0)
#define BODY(n) extern "C" void vf_thread_##n() { VF_T##n; }
extern "C" void vf_init() { gc = new GC; gc->set_queue_capacity(VF_QCAP); acc = gc->epoch().create_accessor(); }
#ifdef VF_T0
BODY(0)
#endif
#ifdef VF_T1
BODY(1)
#endif
#ifdef VF_T2
BODY(2)
#endif
extern "C" void vf_final() { VF_FINAL; }
