// C10 (sequential): retire x n, stop() marker, then the real keep_reclaim() loop; a reader region that was open at
// retirement closes during one of the collector's back-off sleeps (usleep hook). n, "region open?" and the sleep at which
// it closes are symbolic. Oracle: every reclaimer runs exactly once, never while the region is open, before the
// collector returns (= before stop() would return).
#include "babylon/concurrent/garbage_collector.h"
#include "vf.h"
#include <unistd.h>
uint64_t invoked[3]; uint64_t open_at_invoke[3]; uint64_t region_open; uint64_t sleeps; uint64_t close_at;
babylon::Epoch::Accessor acc;
struct R { uint64_t id {0}; uint64_t live {0};
  R() = default; R(uint64_t i) : id(i), live(1) {}
  R(R&& o) noexcept : id(o.id), live(o.live) { o.live = 0; }
  R& operator=(R&& o) noexcept { id = o.id; live = o.live; o.live = 0; return *this; }
  void operator()() noexcept { if (id < 3) { invoked[id] += 1; open_at_invoke[id] = region_open; } live = 0; } };
using GC = babylon::GarbageCollector<R>;
GC* gc;
extern "C" int usleep(useconds_t) { sleeps++; if (region_open && sleeps == close_at) { region_open = 0; acc.unlock(); } return 0; }
extern "C" void vf_init() { gc = new GC; gc->set_queue_capacity(4); acc = gc->epoch().create_accessor(); }
extern "C" void vf_thread_0() {
  uint64_t n = vf_nondet64(); vf_assume(n <= 2);
  uint64_t open = vf_nondet64() & 1; close_at = vf_nondet64(); vf_assume(close_at >= 1 && close_at <= 2);
  if (open) { acc.lock(); region_open = 1; }
  for (uint64_t i = 0; i < n && i < 2; ++i) gc->retire(R{i});
  gc->_queue.template push<true, false, false>(GC::ReclaimTask {});       // stop(): marker; join == keep_reclaim returns
  gc->keep_reclaim();
  for (uint64_t i = 0; i < n && i < 2; ++i) { vf_check(invoked[i] == 1, 1); vf_check(open_at_invoke[i] == 0, 3); }
  vf_check(invoked[2] == 0, 2);
}
