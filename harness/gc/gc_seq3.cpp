// C10 (sequential): batch retirement with an explicit (older) epoch - retire(r, lowest_epoch) - mixed with ordinary
// retire(r), so that one intake batch of the collector holds tasks whose epochs are NOT ascending in queue order. A reader
// region is opened at a symbolic point (before the first tick / between the tick and the retirements / never) and closes
// during one of the collector's back-off sleeps. Oracle: every reclaimer exactly once; a reclaimer whose epoch was ticked
// while the region was open never runs while it is still open; all before the collector returns.
#include "babylon/concurrent/garbage_collector.h"
#include "vf.h"
#include <unistd.h>
uint64_t invoked[4]; uint64_t open_at_invoke[4]; uint64_t must_wait[4]; uint64_t region_open; uint64_t sleeps; uint64_t close_at;
babylon::Epoch::Accessor acc;
struct R { uint64_t id {0}; uint64_t live {0};
  R() = default; R(uint64_t i) : id(i), live(1) {}
  R(R&& o) noexcept : id(o.id), live(o.live) { o.live = 0; }
  R& operator=(R&& o) noexcept { id = o.id; live = o.live; o.live = 0; return *this; }
  void operator()() noexcept { if (id < 3) { invoked[id] += 1; open_at_invoke[id] = region_open; } else invoked[3] += 1; live = 0; } };
using GC = babylon::GarbageCollector<R>;
GC* gc;
extern "C" int usleep(useconds_t) { sleeps++; if (region_open && sleeps == close_at) { region_open = 0; acc.unlock(); } return 0; }
extern "C" void vf_init() { gc = new GC; gc->set_queue_capacity(4); acc = gc->epoch().create_accessor(); }
#ifndef VF_NR
#define VF_NR 3
#endif
extern "C" void vf_thread_0() {
  uint64_t p = vf_nondet64(); vf_assume(p < 3); close_at = vf_nondet64(); vf_assume(close_at >= 1 && close_at <= 2);
  if (p == 0) { acc.lock(); region_open = 1; }
  uint64_t open_at_e1 = region_open;
  uint64_t e1 = gc->epoch().tick();
  if (p == 1) { acc.lock(); region_open = 1; }
  for (uint64_t i = 0; i < VF_NR; ++i) {
    uint64_t mode = vf_nondet64() & 1;
    if (mode) { must_wait[i] = open_at_e1; gc->retire(R{i}, e1); }
    else { must_wait[i] = region_open; gc->retire(R{i}); }
  }
  gc->_queue.template push<true, false, false>(GC::ReclaimTask {});       // stop(): marker; join == keep_reclaim returns
  gc->keep_reclaim();
  for (uint64_t i = 0; i < VF_NR; ++i) { vf_check(invoked[i] == 1, 1); if (must_wait[i]) vf_check(open_at_invoke[i] == 0, 3); }
  vf_check(invoked[3] == 0, 2);
  vf_check(region_open == 0 || sleeps < close_at, 4);
}
