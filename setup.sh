#!/bin/sh
# Offline setup: nothing to build ahead of time; verify the tools the checks need are present.
set -e
for t in clang++-14 opt-14 llvm-link-14 python3-vt; do command -v $t >/dev/null || { echo "missing $t"; exit 1; }; done
python3-vt -c "import z3; print('z3', z3.get_version_string())"
mkdir -p /verif/build /verif/evidence /verif/replays
echo setup ok
