// Native schedule replay for CONCURRENT counterexamples found under the `sc` model. The harness + real babylon IR is
// instrumented (tools/instrument.py) with vf_rt_sched() before every instruction the symbolic engine treats as a
// scheduling point. Real OS threads run the real code; a thread stops at the scheduling points named by the witness
// and proceeds only when it is its turn in the witness's global order. Everything in between runs freely.
#include <stdint.h>
#include <stdio.h>
#include <stdlib.h>
#include <string.h>
#include <time.h>
#include <errno.h>
#include <unistd.h>
#include <atomic>
#include <condition_variable>
#include <mutex>
#include <thread>
#include <vector>
#include <map>
#include <set>
#include <stdarg.h>
#include <dlfcn.h>
namespace {
struct Ent { int tid; uint64_t seq; };
std::vector<Ent> g_sched; size_t g_cursor = 0;          // global order of scheduled points
int g_nthreads = 0;
std::vector<std::vector<uint64_t>> g_nd, g_clk; std::vector<size_t> g_ndi, g_clki;
std::vector<std::set<uint64_t>> g_mine;                 // scheduled seq numbers per thread
std::mutex g_mu; std::condition_variable g_cv;
int g_inflight = -1;                                    // thread whose scheduled instruction is executing
std::vector<int> g_done, g_blocked;                     // finished / blocked in futex_wait
std::map<uintptr_t, uint64_t> g_wake_epoch;             // per futex address: number of wakes so far
int g_failed = 0; std::vector<int> g_failed_labels;
thread_local int t_tid = -1; thread_local uint64_t t_cnt = 0; thread_local bool t_started = false; thread_local int t_in_rt = 0;
struct InRt { InRt() { t_in_rt++; } ~InRt() { t_in_rt--; } };
void fail_label(int l) { InRt guard; std::lock_guard<std::mutex> lk(g_mu); g_failed = 1; g_failed_labels.push_back(l); printf("ASSERT-FAILED L%d (thread %d)\n", l, t_tid); }
void finish_inflight_locked() { if (g_inflight == t_tid) { g_inflight = -1; g_cursor++; g_cv.notify_all(); } }
bool all_others_quiet_locked(int me) { for (int i = 0; i < g_nthreads; ++i) if (i != me && !g_done[i] && !g_blocked[i]) return false; return true; }
}
extern "C" {
void vf_init(); void vf_final() __attribute__((weak));
void vf_thread_0() __attribute__((weak)); void vf_thread_1() __attribute__((weak)); void vf_thread_2() __attribute__((weak)); void vf_thread_3() __attribute__((weak));
void vf_prologue_0() __attribute__((weak)); void vf_prologue_1() __attribute__((weak)); void vf_prologue_2() __attribute__((weak)); void vf_prologue_3() __attribute__((weak));
void vf_rt_sched() {
  if (!t_started) return;
  InRt guard;
  std::unique_lock<std::mutex> lk(g_mu);
  finish_inflight_locked();
  uint64_t c = ++t_cnt;
  if (!g_mine[t_tid].count(c)) return;                   // not named by the witness: thread-private / immutable data
  auto ok = [&] { return g_cursor < g_sched.size() && g_sched[g_cursor].tid == t_tid && g_sched[g_cursor].seq == c && g_inflight == -1; };
  if (!g_cv.wait_for(lk, std::chrono::seconds(20), ok)) {
    printf("REPLAY-DIVERGED thread %d at point %llu: not scheduled (cursor %zu/%zu)\n", t_tid, (unsigned long long)c, g_cursor, g_sched.size());
    fflush(stdout); _exit(4);
  }
  g_inflight = t_tid;
}
uint64_t vf_nondet64() noexcept { int t = t_tid < 0 ? g_nthreads : t_tid; if (g_ndi[t] < g_nd[t].size()) return g_nd[t][g_ndi[t]++]; return 0; }
void vf_assert(bool c) noexcept { if (!c) fail_label(-1); }
void vf_check(bool c, int label) noexcept { if (!c) fail_label(label); }
void vf_assume(bool c) noexcept { if (!c) { printf("ASSUME-VIOLATED thread %d\n", t_tid); fflush(stdout); _exit(3); } }
static uint64_t next_clk() { int t = t_tid < 0 ? g_nthreads : t_tid; if (g_clki[t] < g_clk[t].size()) return g_clk[t][g_clki[t]++]; return g_clk[t].empty() ? 1000000000000ull : g_clk[t].back(); }
uint64_t vf_now_ns() noexcept { return next_clk(); }
uint64_t vf_now_s() noexcept { return next_clk() / 1000000000ull; }
void vf_usleep(unsigned) noexcept {} void vf_yield() noexcept {}
int vf_futex_wake_all(uint32_t* a) noexcept { InRt guard; std::lock_guard<std::mutex> lk(g_mu); g_wake_epoch[(uintptr_t)a]++; g_cv.notify_all(); return 1; }
int vf_futex_wake_one(uint32_t* a) noexcept { return vf_futex_wake_all(a); }
int vf_futex_wait(uint32_t* a, uint32_t val, const struct timespec*) noexcept {
  InRt guard;
  std::unique_lock<std::mutex> lk(g_mu);
  if (__atomic_load_n(a, __ATOMIC_SEQ_CST) != val) { errno = EAGAIN; return -1; }
  uint64_t ep = g_wake_epoch[(uintptr_t)a];
  finish_inflight_locked();                              // the wait itself is done; now asleep
  g_blocked[t_tid] = 1; g_cv.notify_all();
  for (;;) {
    if (g_wake_epoch[(uintptr_t)a] != ep) break;
    if (all_others_quiet_locked(t_tid)) {                // nobody is left who could wake us: the witness's deadlock
      printf("STUCK thread %d sleeps in futex_wait forever\n", t_tid); g_failed = 1; g_failed_labels.push_back(-2);
      g_done[t_tid] = 1; g_cv.notify_all(); lk.unlock(); fflush(stdout);
      for (;;) pause();
    }
    g_cv.wait_for(lk, std::chrono::milliseconds(200));
  }
  g_blocked[t_tid] = 0; errno = 0; return 0;
}
}
// clock readings of harness threads come from the witness (the runtime's own waits keep the real clock)
extern "C" int clock_gettime(clockid_t id, struct timespec* ts) noexcept {
  static int (*real)(clockid_t, struct timespec*) = (int (*)(clockid_t, struct timespec*))dlsym(RTLD_NEXT, "clock_gettime");
  if (t_started && t_in_rt == 0 && t_tid >= 0 && !g_clk[t_tid].empty()) { uint64_t ns = next_clk(); ts->tv_sec = ns / 1000000000ull; ts->tv_nsec = ns % 1000000000ull; return 0; }
  return real(id, ts);
}
// the default babylon SchedInterface issues raw futex syscalls: route them to the same model
extern "C" long syscall(long n, ...) noexcept {
  va_list ap; va_start(ap, n);
  if (n == 202) {
    uint32_t* addr = va_arg(ap, uint32_t*); long op = va_arg(ap, long); long val = va_arg(ap, long);
    if ((op & 0x7f) == 0) { const struct timespec* to = va_arg(ap, const struct timespec*); va_end(ap); return vf_futex_wait(addr, (uint32_t)val, to); }
    va_end(ap); return vf_futex_wake_all(addr);
  }
  // anything else (gettid from the logger, ...) goes to the kernel unchanged
  long a1 = va_arg(ap, long), a2 = va_arg(ap, long), a3 = va_arg(ap, long), a4 = va_arg(ap, long), a5 = va_arg(ap, long), a6 = va_arg(ap, long); va_end(ap);
  typedef long (*real_t)(long, ...); static real_t real = (real_t)dlsym(RTLD_NEXT, "syscall");
  return real(n, a1, a2, a3, a4, a5, a6);
}
static void body(int tid, void (*pro)(), void (*fn)()) {
  t_tid = tid;
  if (pro) pro();
  { std::unique_lock<std::mutex> lk(g_mu); static int arrived = 0; arrived++; g_cv.notify_all(); g_cv.wait(lk, [&] { return arrived == g_nthreads; }); }
  t_started = true;
  fn();
  std::unique_lock<std::mutex> lk(g_mu);
  finish_inflight_locked(); t_started = false;
  g_done[tid] = 1; g_cv.notify_all();
}
int main(int argc, char** argv) {
  // witness file: "T n" / "S tid seq" / "N tid value" / "C tid value"
  FILE* f = fopen(argv[1], "r"); if (!f) { perror("witness"); return 5; }
  char k; long long a; unsigned long long b;
  void (*fns[4])() = {vf_thread_0, vf_thread_1, vf_thread_2, vf_thread_3};
  void (*pros[4])() = {vf_prologue_0, vf_prologue_1, vf_prologue_2, vf_prologue_3};
  while (fscanf(f, " %c %lld %llu", &k, &a, &b) == 3) {
    if (k == 'T') { g_nthreads = (int)a; g_nd.assign(g_nthreads + 1, {}); g_clk.assign(g_nthreads + 1, {}); g_ndi.assign(g_nthreads + 1, 0); g_clki.assign(g_nthreads + 1, 0); g_mine.assign(g_nthreads, {}); g_done.assign(g_nthreads, 0); g_blocked.assign(g_nthreads, 0); }
    else if (k == 'S') { g_sched.push_back(Ent{(int)a, b}); g_mine[a].insert(b); }
    else if (k == 'N') { g_nd[a < g_nthreads ? a : g_nthreads].push_back(b); }
    else if (k == 'C') { g_clk[a < g_nthreads ? a : g_nthreads].push_back(b); }
  }
  fclose(f);
  vf_init();
  std::vector<std::thread> ths;
  for (int i = 0; i < g_nthreads; ++i) ths.emplace_back(body, i, pros[i], fns[i]);
  // wait until every thread finished or is stuck for good
  { std::unique_lock<std::mutex> lk(g_mu);
    bool ok = g_cv.wait_for(lk, std::chrono::seconds(60), [&] { for (int i = 0; i < g_nthreads; ++i) if (!g_done[i]) return false; return true; });
    if (!ok) { printf("REPLAY-TIMEOUT cursor %zu/%zu\n", g_cursor, g_sched.size()); fflush(stdout); _exit(4); } }
  bool stuck = false; for (int l : g_failed_labels) if (l == -2) stuck = true;
  if (!stuck) { for (auto& t : ths) t.join(); if (vf_final) vf_final(); }
  if (g_cursor != g_sched.size() && !stuck) printf("REPLAY-NOTE schedule not exhausted: %zu/%zu\n", g_cursor, g_sched.size());
  printf(g_failed ? "REPLAY-RESULT violated\n" : "REPLAY-RESULT held\n"); fflush(stdout);
  _exit(g_failed ? 1 : 0);
}
