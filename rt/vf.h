// Harness-side interface of the symbolic engine (/verif/engine). Everything declared here is either
// interpreted by the engine (symbolic runs) or implemented by rt/replay_rt.cpp (native replay).
#pragma once
#include <stdint.h>
#include <stddef.h>
#include <time.h>
extern "C" {
int vf_futex_wait(uint32_t*, uint32_t, const struct timespec*) noexcept;
int vf_futex_wake_one(uint32_t*) noexcept;
int vf_futex_wake_all(uint32_t*) noexcept;
void vf_usleep(unsigned) noexcept;
void vf_yield() noexcept;
void vf_assert(bool) noexcept;            // property assertion (unlabelled)
void vf_check(bool, int label) noexcept;  // property assertion with a stable label (known-findings key)
void vf_assume(bool) noexcept;            // stated precondition / bound on symbolic inputs
uint64_t vf_nondet64() noexcept;          // arbitrary 64-bit value (solver variable)
uint64_t vf_now_s() noexcept;             // symbolic monotone wall clock, seconds
uint64_t vf_now_ns() noexcept;            // same clock, nanoseconds
}
// Scheduling interface handed to babylon templates that take one (S / M parameter).
struct VS {
  constexpr static bool futex_need_create() noexcept { return false; }
  static uint32_t* create_futex() noexcept { return nullptr; }
  static void destroy_futex(uint32_t*) noexcept {}
  static int futex_wait(uint32_t* f, uint32_t v, const struct timespec* t) noexcept { return vf_futex_wait(f, v, t); }
  static int futex_wake_one(uint32_t* f) noexcept { return vf_futex_wake_one(f); }
  static int futex_wake_all(uint32_t* f) noexcept { return vf_futex_wake_all(f); }
  static void usleep(unsigned us) noexcept { vf_usleep(us); }
  static void yield() noexcept { vf_yield(); }
};
