// Native replay runtime for SEQUENTIAL-mode counterexamples: the harness TU and the real babylon sources are compiled
// natively; symbolic inputs (vf_nondet64, clock readings) are fed from the solver's model in call order.
#include <stdint.h>
#include <stdio.h>
#include <stdlib.h>
#include <string.h>
#include <time.h>
#include <unistd.h>
#include <vector>
#include <pthread.h>
static std::vector<uint64_t> g_nd, g_tns; static size_t g_ndi, g_ti; static int g_failed;
extern "C" {
void vf_init(); void vf_thread_0();
void vf_seq_1() __attribute__((weak)); void vf_seq_2() __attribute__((weak)); void vf_seq_3() __attribute__((weak));
uint64_t vf_nondet64() noexcept { if (g_ndi < g_nd.size()) return g_nd[g_ndi++]; fprintf(stderr, "REPLAY: more nondet calls than the witness has\n"); g_ndi++; return 0; }
void vf_assert(bool c) noexcept { if (!c) { printf("ASSERT-FAILED unlabelled\n"); g_failed = 1; } }
void vf_check(bool c, int label) noexcept { if (!c) { printf("ASSERT-FAILED L%d\n", label); g_failed = 1; } }
void vf_assume(bool c) noexcept { if (!c) { printf("ASSUME-VIOLATED\n"); fflush(stdout); _exit(3); } }
static uint64_t next_tns() { if (g_ti < g_tns.size()) return g_tns[g_ti++]; return g_tns.empty() ? 1000000000000ull : g_tns.back(); }
uint64_t vf_now_ns() noexcept { return next_tns(); }
uint64_t vf_now_s() noexcept { return next_tns() / 1000000000ull; }
void vf_usleep(unsigned) noexcept {} void vf_yield() noexcept {}
int vf_futex_wait(uint32_t*, uint32_t, const struct timespec*) noexcept { return 0; }
int vf_futex_wake_one(uint32_t*) noexcept { return 0; } int vf_futex_wake_all(uint32_t*) noexcept { return 0; }

}
int main(int argc, char** argv) {
  // argv: nd values..., then "--", then tns values...
  int i = 1;
  for (; i < argc && strcmp(argv[i], "--"); ++i) g_nd.push_back(strtoull(argv[i], 0, 10));
  for (++i; i < argc; ++i) g_tns.push_back(strtoull(argv[i], 0, 10));
  vf_init();
  // every generation runs on its own OS thread, one after the other (real thread_local storage, real thread exit)
  // (raw pthreads: a harness may define std::thread::_M_start_thread / join itself to play the library's threads)
  auto run_gen = [](void (*fn)()) { pthread_t t; pthread_create(&t, nullptr, [](void* f) -> void* { ((void (*)())f)(); return nullptr; }, (void*)fn); pthread_join(t, nullptr); };
  run_gen(vf_thread_0);
  if (vf_seq_1) run_gen(vf_seq_1);
  if (vf_seq_2) run_gen(vf_seq_2);
  if (vf_seq_3) run_gen(vf_seq_3);
  printf(g_failed ? "REPLAY-RESULT violated\n" : "REPLAY-RESULT held\n");
  return g_failed ? 1 : 0;
}
