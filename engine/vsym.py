"""Prototype: bounded symbolic execution of LLVM IR thread bodies into guarded memory events and an
SMT (z3) encoding of all interleavings / weak-memory behaviours (sc | tso | arm)."""
import sys, time, itertools
import z3
from irparse import *
import os

sys.setrecursionlimit(100000)

class Unsupported(Exception):
    pass

def mask(w): return (1 << w) - 1

def is_c(v): return isinstance(v, int)

def tobv(v, w):
    if is_c(v): return z3.BitVecVal(v & mask(w), w)
    if z3.is_bool(v): v = z3.If(v, z3.BitVecVal(1, 1), z3.BitVecVal(0, 1))
    if v.size() > w: return z3.Extract(w - 1, 0, v)      # width-less merged constants are kept at 64 bits
    if v.size() < w: return z3.ZeroExt(w - v.size(), v)
    return v

def simp(v):
    if is_c(v): return v
    v = z3.simplify(v)
    if z3.is_bv_value(v): return v.as_long()
    if z3.is_true(v): return 1
    if z3.is_false(v): return 0
    return v

def tobool(v):
    if is_c(v): return z3.BoolVal(bool(v & 1))
    if z3.is_bool(v): return v
    if v.size() != 1: v = z3.Extract(0, 0, v)
    return v == z3.BitVecVal(1, 1)

def width_of(t):
    t = resolve(t)
    if isinstance(t, IntTy): return t.bits
    if isinstance(t, PtrTy): return 64
    if isinstance(t, FloatTy): return t.bits
    raise Unsupported('width_of %r' % (t,))

STACK_BASE = 0x7f0000000000
HEAP_BASE = 0x10000000
GLOB_BASE = 0x100000
FUNC_BASE = 0x400000

class Mem:
    """byte-granular concrete-address memory holding symbolic bytes: addr -> (val, width_bits, byte_index).
    Copy-on-write chain: fork() freezes this layer and returns two fresh children (O(1)); `root` layers (the init image)
    are shared by everybody and never count as path-local."""
    TOMB = ('tomb',)
    def __init__(s, parent=None, root=False):
        s.d = {}
        s.parent = parent
        s.root = root
        s.depth = 0 if parent is None or parent.root else parent.depth + 1
    def split(s):
        """-> (a, b): two independent continuations of this memory"""
        base = s
        if s.depth > 24: base = s.flatten()
        return Mem(base), Mem(base)
    def flatten(s):
        chain = []; x = s
        while x is not None and not x.root: chain.append(x); x = x.parent
        m = Mem(x)
        for layer in reversed(chain): m.d.update(layer.d)
        return m
    def get(s, a):
        x = s
        while x is not None:
            c = x.d.get(a)
            if c is not None: return None if c is Mem.TOMB else c
            x = x.parent
        return None
    def has_local(s, a):
        x = s
        while x is not None and not x.root:
            c = x.d.get(a)
            if c is not None: return c is not Mem.TOMB
            x = x.parent
        return False
    def drop_local(s, a):
        s.d[a] = Mem.TOMB
    def ancestors(s):
        out = []; x = s
        while x is not None and not x.root: out.append(x); x = x.parent
        return out
    def keys_since(s, stop):
        keys = set(); x = s
        while x is not None and not x.root and x is not stop: keys |= x.d.keys(); x = x.parent
        return keys
    def store(s, addr, size, val):
        if is_c(val): val &= mask(8 * size)
        for i in range(size): s.d[addr + i] = (val, 8 * size, i)
    def load(s, addr, size, undef=None):
        cells = [s.get(addr + i) for i in range(size)]
        c0 = cells[0]
        if c0 is not None and c0[1] == 8 * size and all(c is not None and c[0] is c0[0] and c[2] == i for i, c in enumerate(cells)) and c0[2] == 0:
            return c0[0]
        if c0 is not None and is_c(c0[0]) and all(c is not None and is_c(c[0]) for c in cells):
            v = 0
            for i, c in enumerate(cells): v |= ((c[0] >> (8 * c[2])) & 0xff) << (8 * i)
            return v
        parts = []
        for i, c in enumerate(cells):
            if c is None:
                if undef is None: raise Unsupported('load of uninitialised memory at %#x' % (addr + i))
                parts.append(undef(addr + i))
            else:
                v, w, bi = c
                parts.append(z3.Extract(8 * bi + 7, 8 * bi, tobv(v, w)))
        parts = [tobv(p, 8) for p in parts]
        return simp(z3.Concat(*reversed(parts))) if len(parts) > 1 else simp(parts[0])

class Ev:
    __slots__ = ('id', 'tid', 'kind', 'addr', 'size', 'val', 'order', 'guard', 'parent', 'depth', 'rmw', 'text',
                 'full', 'init_val', 'fx', 'anc', 'aset', 'dom', 'wof', 'seq', 'lab')
    def __repr__(s):
        return 'E%d[t%d %s%s %s/%d %s]' % (s.id, s.tid, s.kind, '' if s.order in (None, 'na') else '.' + s.order,
                                           hex(s.addr) if is_c(s.addr) else ('sym' if s.addr is not None else '-'), s.size or 0,
                                           s.val if is_c(s.val) else '')

class Frame:
    def __init__(s, fn, regs):
        s.fn, s.regs, s.block, s.prev, s.ip = fn, regs, fn.order[0], None, 0
        s.visits = {}; s.symv = {}; s.symexit = set()
        s.ret_to = None
        s.start_ip = 0
    def fork(s):
        f = Frame.__new__(Frame)
        f.fn, f.regs, f.block, f.prev, f.ip = s.fn, dict(s.regs), s.block, s.prev, s.ip
        f.visits = dict(s.visits); f.ret_to = s.ret_to; f.start_ip = s.start_ip
        f.symv = dict(s.symv); f.symexit = set(s.symexit)
        return f

class Path:
    def __init__(s):
        s.frames = []; s.pc = []; s.last = None; s.mem = None; s.sp = 0; s.errno_addr = None; s.nsym = 0; s.nmem = 0
    def fork(s):
        p = Path(); p.frames = [f.fork() for f in s.frames]; p.pc = list(s.pc); p.last = s.last; p.nsym = s.nsym; p.nmem = s.nmem
        if hasattr(s, 'tls'): p.tls = dict(s.tls)
        if hasattr(s, 'alloc_cnt'): p.alloc_cnt = dict(s.alloc_cnt)
        if hasattr(s, 'tls_dtors'): p.tls_dtors = list(s.tls_dtors)
        if hasattr(s, 'nnd'): p.nnd = s.nnd
        s.mem, p.mem = s.mem.split(); p.sp = s.sp; p.errno_addr = s.errno_addr
        return p

class Engine:
    def __init__(s, mod, model='sc', loop_bound=3, verbose=False):
        s.mod, s.model, s.loop_bound, s.verbose = mod, model, loop_bound, verbose
        s.init_mem = Mem(root=True)
        s.heap = HEAP_BASE
        s.gaddr = {}; s.faddr = {}; s.addr2f = {}
        s.events = []; s.asserts = []; s.assumes = []; s.exceeded = []; s.stuck = []; s.futex_waits = []
        s.may_written = set(); s.wild = False; s.D = {}; s.read_of_var = {}; s.oblig = []
        s.wtids = {}; s.wt_new = False; s.env = []; s.time_vars = {}; s.rtids = {}
        s.nfresh = 0
        s.local_solver = z3.Solver(); s.local_solver.set('timeout', 2000)
        s.stats = dict(paths=0, forks=0, instrs=0)
        s.loop_bounds = {}; s.fn_seen = set(); s.opts = {}; s.is_final = False
        s.phase = 'layout'; s.tid = -1
        s.ext_globals = []
        s.layout_globals()
        s.phase = 'init'

    # ------------------------------------------------------------------ globals
    def layout_globals(s):
        a = GLOB_BASE
        for i, f in enumerate(s.mod.funcs.values()):
            s.faddr[f.name] = FUNC_BASE + 16 * i; s.addr2f[FUNC_BASE + 16 * i] = f
        for g in s.mod.globals.values():
            if g.init is not None and isinstance(g.init, tuple): continue
            al = max(g.align or 1, 16)
            a = (a + al - 1) // al * al
            s.gaddr[g.name] = a
            if g.init is None and not g.name.startswith('@_ZTV') and not g.name.startswith('@_ZTI') and g.name not in ('@stderr', '@stdout', '@__dso_handle', '@environ', '@__libc_single_threaded'):
                s.ext_globals.append((a, a + max(size_of(g.ty), 1), g.name))
            a += max(size_of(g.ty), 1)
        for g in s.mod.globals.values():
            if g.name in s.gaddr and g.init is not None:
                s.store_const(s.init_mem, s.gaddr[g.name], g.ty, g.init)

    def store_const(s, mem, addr, ty, c):
        ty = resolve(ty)
        if isinstance(c, Const) and c.kind == 'zero' or (isinstance(c, Const) and c.kind == 'undef'):
            for i in range(size_of(ty)): mem.store(addr + i, 1, 0)
            return
        if isinstance(ty, (IntTy, PtrTy, FloatTy)):
            v = s.const_val(c, ty)
            mem.store(addr, size_of(ty), v); return
        if isinstance(c, Const) and c.kind == 'bytes':
            for i, b in enumerate(c.val): mem.store(addr + i, 1, b)
            return
        if isinstance(ty, StructTy):
            for i in range(size_of(ty)): mem.store(addr + i, 1, 0)
            for i, (et, ev) in enumerate(zip(ty.elems, c.val)):
                s.store_const(mem, addr + field_offset(ty, i), et, ev)
            return
        if isinstance(ty, (ArrTy, VecTy)):
            es = size_of(ty.elem)
            for i, ev in enumerate(c.val): s.store_const(mem, addr + i * es, ty.elem, ev)
            return
        raise Unsupported('store_const %r' % (ty,))

    def const_val(s, c, ty):
        if isinstance(c, GlobalRef):
            if c.name in s.gaddr:
                g = s.mod.globals[c.name]
                if g.tls and getattr(s, 'phase', 'layout') != 'layout': return s.tls_addr(None, g)
                return s.gaddr[c.name]
            if c.name in s.faddr: return s.faddr[c.name]
            f_ = s.mod.funcs.get(c.name)
            if f_ is not None: return 0x7000 + (hash(c.name) % 4096) * 16      # declared-only function (e.g. extern_weak probes): some non-null address
            raise Unsupported('global %s' % c.name)
        if c.kind == 'int': return c.val & mask(width_of(ty)) if ty is not None else c.val
        if c.kind in ('undef', 'zero'): return 0
        if c.kind == 'cast':
            op, ft, fv = c.val
            v = s.const_val(fv, ft)
            return v & mask(width_of(c.ty))
        if c.kind == 'gep':
            bt, pv, idx = c.val
            base = s.const_val(pv, None)
            return s.gep(base, bt, [(None, i.val if isinstance(i, Const) else s.const_val(i, None)) for i in idx])
        if c.kind == 'float': return 0
        if c.kind == 'bin':
            op, a, b = c.val; w = width_of(c.ty); x = s.const_val(a, c.ty); y = s.const_val(b, c.ty); m = mask(w)
            sg = lambda v: v - (1 << w) if v >> (w - 1) else v
            r = {'add': lambda: x + y, 'sub': lambda: x - y, 'mul': lambda: x * y, 'and': lambda: x & y, 'or': lambda: x | y, 'xor': lambda: x ^ y,
                 'shl': lambda: x << y, 'lshr': lambda: x >> y, 'ashr': lambda: sg(x) >> y}[op]()
            return r & m
        if c.kind == 'icmp':
            pred, a, b = c.val; w = width_of(c.ty); x = s.const_val(a, c.ty); y = s.const_val(b, c.ty)
            sg = lambda v: v - (1 << w) if v >> (w - 1) else v
            return int({'eq': x == y, 'ne': x != y, 'ugt': x > y, 'uge': x >= y, 'ult': x < y, 'ule': x <= y,
                        'sgt': sg(x) > sg(y), 'sge': sg(x) >= sg(y), 'slt': sg(x) < sg(y), 'sle': sg(x) <= sg(y)}[pred])
        if c.kind == 'select':
            cc, a, b = c.val
            return s.const_val(a, c.ty) if s.const_val(cc, IntTy(1)) else s.const_val(b, c.ty)
        raise Unsupported('const %r' % (c,))

    def gep(s, base, bt, idx):
        off = 0; t = bt
        first = True
        for (_, iv) in idx:
            if first:
                sz = size_of(t); first = False
                off = s.add64(off, s.mul64(s.sext64(iv), sz))
                continue
            t = resolve(t)
            if isinstance(t, StructTy):
                assert is_c(iv); off = s.add64(off, field_offset(t, iv)); t = t.elems[iv]
            else:
                t = t.elem
                off = s.add64(off, s.mul64(s.sext64(iv), size_of(t)))
        return s.add64(base, off)

    def sext64(s, v):
        if is_c(v):
            return v   # constants arrive already sign-correct for our purposes (masked later)
        if v.size() < 64: return z3.SignExt(64 - v.size(), v)
        return v
    def add64(s, a, b):
        if is_c(a) and is_c(b): return (a + b) & mask(64)
        return simp(tobv(a, 64) + tobv(b, 64))
    def mul64(s, a, b):
        if is_c(a) and is_c(b): return (a * b) & mask(64)
        return simp(tobv(a, 64) * tobv(b, 64))

    def fresh(s, name, w):
        s.nfresh += 1
        return z3.BitVec('%s_%d' % (name, s.nfresh), w)

    def malloc(s, size, align=16, site_pool=False):
        align = max(align, 16)
        if site_pool:
            h = s.__dict__.setdefault('site_heap', HEAP_BASE + 0x8000000)
            h = (h + align - 1) // align * align
            s.site_heap = h + max(size, 1) + 64
            s.__dict__.setdefault('site_allocs', []).append((h, max(size, 1)))
            return h
        s.heap = (s.heap + align - 1) // align * align
        a = s.heap; s.heap += max(size, 1) + 64
        s.__dict__.setdefault('allocs', []).append((a, max(size, 1)))
        return a

    # ------------------------------------------------------------------ exploration
    def run_prologue(s, tid, fname):
        """run a per-thread warm-up (TLS caches, thread ids) sequentially during init, as thread tid"""
        s.phase = 'init'
        p = Path(); p.mem = s.init_mem; p.sp = STACK_BASE + 0x80000000 * (tid + 2)
        s.tid = tid
        s.exec_fn(p, s.mod.funcs[fname], [])
        s.phase = 'threads'

    def run_init(s, fname):
        s.phase = 'init'
        p = Path(); p.mem = s.init_mem; p.sp = STACK_BASE
        s.tid = -1
        if getattr(s, 'opts', {}).get('ctors', '0') == '1':
            # program start-up: the translation units' static constructors, in @llvm.global_ctors order
            g = s.mod.globals.get('@llvm.global_ctors')
            if g is not None and g.init is not None and g.init.kind == 'agg':
                for ent in g.init.val:
                    fn = ent.val[1]
                    if isinstance(fn, GlobalRef) and fn.name in s.mod.funcs and s.mod.funcs[fn.name].defined:
                        s.exec_fn(p, s.mod.funcs[fn.name], [])
        outs = s.exec_fn(p, s.mod.funcs[fname], [])
        s.phase = 'threads'

    def seed_domains(s, names):
        """sequential concrete pre-runs (threads one after another, several orders) to guess value domains"""
        import itertools
        orders = list(itertools.permutations(range(len(names))))[:6]
        for order in orders:
            s.phase = 'seq'; s.seq_mem = Mem(parent=s.init_mem); heap0 = s.heap
            s.events = []; s.writes_seen = set()
            for tid in order:
                try: s.explore_one(tid, names[tid])
                except Unsupported as ex:
                    if s.verbose: print('  pre-run skipped:', str(ex)[:80])
            s.heap = heap0
        s.phase = 'threads'

    def explore_threads(s, names, final=None):
        """fixpoint on may-written set / value domains, then final exploration kept"""
        s.thread_names = names; s.final_name = final
        s.sequential = len(names) == 1 and final is None
        if not s.D and not s.sequential: s.seed_domains(names)
        rounds = 0; with_final = final is None
        if not hasattr(s, 'heap_base'): s.heap_base = s.heap; s.allocs_base = len(getattr(s, 'allocs', []))
        s.heap = s.heap_base                     # allocation addresses are identical in every exploration round
        if hasattr(s, 'allocs'): del s.allocs[s.allocs_base:]
        while True:
            rounds += 1
            s.prev_writes = [e for e in s.events if e.kind == 'W']
            s._sub_memo = {}; s._sub_calls = 0; s._vs_memo = {}
            s.events = []; s.asserts = []; s.assumes = []; s.exceeded = []; s.stuck = []; s.futex_waits = []
            s.writes_seen = set(); s.oblig = []; s.D_grew = False; s.wt_new = False; s.env = []
            heap0 = s.heap
            for tid, nm in enumerate(names):
                s.explore_one(tid, nm)
            if final and with_final:
                s.explore_one(len(names), final, final=True)
            new = s.writes_seen - s.may_written
            if s.verbose: print('round', rounds, 'events', len(s.events), 'new may-written bytes', len(new), 'D grew', s.D_grew)
            if not new and not s.D_grew and not s.wt_new:
                if with_final: break
                with_final = True
            if rounds > 24: raise Unsupported('exploration fixpoint (may-written set / reader-writer sets) did not converge in 24 rounds')
            s.may_written |= new
            s.heap = heap0
            if hasattr(s, 'allocs'): del s.allocs[s.allocs_base:]
        s.rounds = rounds

    def explore_one(s, tid, fname, final=False):
        s.tid = tid; s.is_final = final
        p = Path(); p.mem = Mem(parent=s.init_mem); p.sp = STACK_BASE + (tid + 1) * 0x100000000
        ev = s.new_event(p, 'F', None, 0, None, 'start'); ev.full = True
        p.errno_addr = p.sp; p.sp += 16; p.mem.store(p.errno_addr, 4, 0)
        outs = s.exec_fn(p, s.mod.funcs[fname], [])
        s.stats['paths'] += len(outs)
        # sequential "thread generations": vf_seq_1, vf_seq_2, ... continue the same execution, each as a new OS thread
        # (own thread_local storage); the previous generation's thread-exit destructors run in between
        gen = 1
        while outs and getattr(s, 'sequential', False) and fname == '@vf_thread_0' and ('@vf_seq_%d' % gen) in s.mod.funcs:
            m, _ = s.merge(p, outs)
            s.run_tls_dtors(m)
            s.tid = 100 + gen
            outs = s.exec_fn(m, s.mod.funcs['@vf_seq_%d' % gen], [])
            p = m; gen += 1
        if outs:
            m, _ = s.merge(p, outs)
            if getattr(s, 'sequential', False): s.run_tls_dtors(m)
            e = s.new_event(m, 'F', None, 0, None, 'end'); e.full = True

    def run_tls_dtors(s, p):
        mine = [d for d in getattr(p, 'tls_dtors', ()) if d[0] == s.tid]
        p.tls_dtors = [d for d in getattr(p, 'tls_dtors', ()) if d[0] != s.tid]
        for (_, fnp, obj) in reversed(mine):
            fn = s.addr2f.get(fnp) if is_c(fnp) else None
            if fn is None: raise Unsupported('thread-exit destructor is not a known function')
            outs = s.exec_fn(p, fn, [obj])
            if not outs: p.pc.append(z3.BoolVal(False)); return
            m, rv = s.merge(p, outs)
            p.pc = m.pc; p.mem = m.mem; p.sp = m.sp; p.last = m.last; p.errno_addr = m.errno_addr; p.nsym = m.nsym
            if hasattr(m, 'tls_dtors'): p.tls_dtors = m.tls_dtors
            if hasattr(m, 'alloc_cnt'): p.alloc_cnt = m.alloc_cnt
        s.__dict__.setdefault('tls_map', {}).pop(s.tid, None)

    def new_event(s, p, kind, addr, size, val, order, text=''):
        e = Ev(); e.id = len(s.events); e.tid = s.tid; e.kind = kind; e.addr = addr; e.size = size; e.val = val
        e.order = order; e.guard = list(p.pc); e.parent = p.last; e.depth = 0
        e.rmw = None; e.text = text; e.full = False; e.init_val = None; e.fx = None; e.aset = None; e.dom = 0; e.wof = None; e.seq = None; e.lab = None
        e.seq = p.nmem
        s.events.append(e); p.last = e
        return e

    def start_call(s, p, fn, args, ret_to=None):
        if not fn.defined: raise Unsupported('call to undefined %s' % fn.name)
        regs = {}
        for (pt, pn), a in zip(fn.params, args): regs[pn] = a
        f = Frame(fn, regs); f.ret_to = ret_to
        p.frames.append(f)

    def val(s, p, v, ty=None):
        if isinstance(v, Local): return p.frames[-1].regs[v.name]
        if isinstance(v, GlobalRef):
            if v.name in s.gaddr:
                g = s.mod.globals[v.name]
                if g.tls: return s.tls_addr(p, g)
                return s.gaddr[v.name]
            if v.name in s.faddr: return s.faddr[v.name]
            raise Unsupported('ref %s' % v.name)
        if isinstance(v, Const):
            t = resolve(v.ty) if v.ty is not None else None
            if v.kind == 'agg': return [s.val(p, e, None) for e in v.val]
            if v.kind == 'zero' and isinstance(t, (StructTy, ArrTy, VecTy)):
                return s.zero_of(t)
            if v.kind == 'undef' and isinstance(t, (StructTy, ArrTy, VecTy)):
                return s.zero_of(t)
            return s.const_val(v, v.ty if v.ty is not None else ty)
        raise Unsupported('val %r' % (v,))

    def tls_addr(s, p, g):
        tl = s.__dict__.setdefault('tls_map', {}).setdefault(s.tid, {})
        if g.name not in tl:
            a = s.malloc(max(size_of(g.ty), 1), max(g.align or 1, 16), site_pool=(s.phase != 'init'))
            tl[g.name] = a
            if g.init is not None: s.store_const(s.init_mem, a, g.ty, g.init)
            else:
                for i in range(size_of(g.ty)): s.init_mem.store(a + i, 1, 0)
        return tl[g.name]

    def zero_of(s, t):
        t = resolve(t)
        if isinstance(t, StructTy): return [s.zero_of(e) for e in t.elems]
        if isinstance(t, (ArrTy, VecTy)): return [s.zero_of(t.elem) for _ in range(t.n)]
        return 0

    def feasible(s, pc, force=False):
        if getattr(s, 'is_final', False) and s.phase == 'threads' and not force: return True     # oracle code: let the solver prune
        # incremental: the solver keeps the longest common prefix of the previous query's path condition asserted
        s.assert_pc(pc)
        r = s.local_solver.check()
        if r != z3.unsat and s.phase == 'threads' and pc:
            used = False
            s.local_solver.push()
            for vn in s.vars_of(pc[-1]):
                e = s.read_of_var.get(vn)
                if e is None: continue
                dom = s.domain(e)
                if dom is not None: s.local_solver.add(z3.Or(*[e.val == v for v in dom])); used = True
            if used:
                r = s.local_solver.check()
                if r == z3.unsat: s.oblig.append(('prune', list(pc), None, None))   # justified later by the solver
            s.local_solver.pop()
        return r != z3.unsat

    def cfg_info(s, fn):
        if hasattr(fn, 'cfg'): return fn.cfg
        succ = {}
        for lb, blk in fn.blocks.items():
            t = blk[-1]
            if t.op == 'br': succ[lb] = [t.t] + ([t.f] if t.f else [])
            elif t.op == 'switch': succ[lb] = [t.default] + [l for _, l in t.cases]
            elif t.op == 'call' and t.normal: succ[lb] = [t.normal]
            else: succ[lb] = []
        entry = fn.order[0]
        # iterative DFS for post-order and back edges
        post = []; state = {}; back = []
        st = [(entry, iter(succ[entry]))]; state[entry] = 1
        while st:
            b, it = st[-1]
            for n in it:
                if n not in state:
                    state[n] = 1; st.append((n, iter(succ[n]))); break
                elif state[n] == 1: back.append((b, n))
            else:
                state[b] = 2; post.append(b); st.pop()
        rpo = {b: i for i, b in enumerate(reversed(post))}
        pred = {b: [] for b in succ}
        for b, ss in succ.items():
            for n in ss: pred.setdefault(n, []).append(b)
        loops = {}
        for (src, h) in back:
            body = loops.setdefault(h, {h})
            wl = [src]
            while wl:
                x = wl.pop()
                if x in body: continue
                body.add(x); wl.extend(pred.get(x, []))
        nest = {}
        for b in succ:
            hs = [h for h, body in loops.items() if b in body]
            hs.sort(key=lambda h: -len(loops[h]))     # outermost first
            nest[b] = hs
        fn.cfg = (rpo, nest, loops)
        return fn.cfg

    def path_key(s, p):
        f = p.frames[-1]
        rpo, nest, _ = s.cfg_info(f.fn)
        k = []
        for h in nest.get(f.block, []):
            k += [rpo.get(h, 0), f.visits.get(h, 0)]
        k += [rpo.get(f.block, 0), f.visits.get(f.block, 0), f.ip]
        return tuple(k)

    def exec_fn(s, p0, fn, args):
        """run fn on (a copy of) path p0; returns list of (path, retval) that reach ret.
        Paths are scheduled in loop-aware topological order and merged whenever several of them sit at the
        start of the same (block, visit) -- CBMC-style unrolling with merging at joins."""
        import heapq
        p0 = p0.fork()
        s.fn_seen.add(fn.name[1:])
        s.start_call(p0, fn, args)
        p0.frames[-1].visits[fn.order[0]] = 1
        depth = len(p0.frames)
        heap = []; seq = [0]
        class W:      # worklist facade used by step() for forks
            def append(_, q):
                seq[0] += 1; heapq.heappush(heap, (s.path_key(q), seq[0], q))
        work = W(); work.append(p0)
        done = []
        while heap:
            key, _, p = heapq.heappop(heap)
            f = p.frames[-1]
            if f.ip == f.start_ip:
                group = [p]
                while heap and heap[0][0] == key and heap[0][2].frames[-1].ip == heap[0][2].frames[-1].start_ip:
                    group.append(heapq.heappop(heap)[2])
                if len(group) > 1: p = s.merge_group(group)
            while True:
                f = p.frames[-1]
                blk = f.fn.blocks[f.block]
                ins = blk[f.ip]; f.ip += 1
                s.stats['instrs'] += 1
                s.work = work
                r = s.step(p, f, ins)
                s.work = work
                if isinstance(r, str):
                    if r == 'ret': done.append((p, p.retval))
                    elif r == 'moved': work.append(p)
                    break
        return done

    def common_prefix(s, pcs):
        n = min(len(x) for x in pcs); k = 0
        while k < n and all(x[k] is pcs[0][k] or x[k].eq(pcs[0][k]) for x in pcs[1:]): k += 1
        return k

    def merge_group(s, group):
        """merge paths sitting at the start of the same block in the same frame activation"""
        pcs = [p.pc for p in group]
        k = s.common_prefix(pcs)
        conds = [z3.And(*p.pc[k:]) if len(p.pc) > k else z3.BoolVal(True) for p in group]
        m = group[0].fork()
        m.pc = list(group[0].pc[:k]) + [z3.simplify(z3.Or(*conds))]
        # registers of the current frame
        f = m.frames[-1]
        names = set(f.regs.keys())
        for p in group[1:]: names &= set(p.frames[-1].regs.keys())
        regs = {}
        for nme in names:
            vals = [p.frames[-1].regs[nme] for p in group]
            v = vals[-1]
            same = all((x is vals[0]) or (is_c(x) and is_c(vals[0]) and x == vals[0]) for x in vals)
            if same: regs[nme] = vals[0]; continue
            for x, c in zip(reversed(vals[:-1]), reversed(conds[:-1])): v = s.ite_b(c, x, v)
            regs[nme] = v
        f.regs = regs
        for p in group[1:]:
            g = p.frames[-1]
            for lb, n in g.visits.items():
                if n > f.visits.get(lb, 0): f.visits[lb] = n
            for lb, n in g.symv.items():
                if n > f.symv.get(lb, 0): f.symv[lb] = n
            f.symexit |= g.symexit
        m.nsym = max(p.nsym for p in group) + 1
        m.nnd = max(getattr(p, 'nnd', 0) for p in group)
        m.nmem = s.merge_scalar([p.nmem for p in group], conds)
        s.merge_alloc_cnt(m, group)
        s.merge_alloc_cnt(m, group)
        s.merge_mem(m, group, conds)
        m.sp = max(p.sp for p in group)
        m.last = s.join_node(m, [p.last for p in group])
        s.stats['merges'] = s.stats.get('merges', 0) + 1
        return m

    def merge_scalar(s, vals, conds):
        if all(is_c(v) and v == vals[0] for v in vals): return vals[0]
        v = vals[-1]
        for x, c in zip(reversed(vals[:-1]), reversed(conds[:-1])): v = s.ite_b(c, x, v, 64)
        return v

    def merge_alloc_cnt(s, m, group):
        cnt = {}
        for p in group:
            for k, v in getattr(p, 'alloc_cnt', {}).items():
                if v > cnt.get(k, 0): cnt[k] = v
        if cnt: m.alloc_cnt = cnt
        # thread-exit destructors: paths differ only in whether a thread_local was first used on them; keep the longest list
        best = max((getattr(p, 'tls_dtors', ()) for p in group), key=len)
        if len(best): m.tls_dtors = list(best)

    def merge_mem(s, m, group, conds):
        anc0 = group[0].mem.ancestors(); common = None
        for x in anc0:
            if all(any(y is x for y in p.mem.ancestors()) for p in group[1:]): common = x; break
        keys = set()
        for p in group: keys |= p.mem.keys_since(common)
        def same(c, d):
            if c is d: return True
            if c is None or d is None: return False
            if c[1:] != d[1:]: return False
            if c[0] is d[0]: return True
            if is_c(c[0]) and is_c(d[0]): return c[0] == d[0]
            if is_c(c[0]) or is_c(d[0]): return False
            return c[0].eq(d[0])
        def byte(c):
            if c is None: return s.fresh('undef', 8)
            v, w, bi = c
            if is_c(v): return (v >> (8 * bi)) & 0xff
            return simp(z3.Extract(8 * bi + 7, 8 * bi, v))
        done = set()
        for a in sorted(keys):
            if a in done: continue
            if s.is_final and a < STACK_BASE and any(not p.mem.has_local(a) for p in group):
                m.mem.drop_local(a); continue      # epilogue read cache: valid only if every merged path has read it
            cells = [p.mem.get(a) for p in group]
            c0 = cells[0]
            if all(same(c, c0) for c in cells): continue
            # whole-value merge: every path holds one aligned value of the same width at [a, a + n)
            ws = set((c[1], c[2]) if c is not None else None for c in cells)
            if len(ws) == 1 and None not in ws and c0[2] == 0 and c0[1] > 8:
                n = c0[1] // 8; whole = True
                for p, c in zip(group, cells):
                    for i in range(1, n):
                        d = p.mem.get(a + i)
                        if d is None or d[1] != c[1] or d[2] != i or not (d[0] is c[0] or (is_c(d[0]) and is_c(c[0]) and d[0] == c[0])): whole = False; break
                    if not whole: break
                if whole:
                    v = cells[-1][0]
                    for c, cnd in zip(reversed(cells[:-1]), reversed(conds[:-1])): v = s.ite_b(cnd, c[0], v, c0[1])
                    for i in range(n): m.mem.d[a + i] = (v, c0[1], i); done.add(a + i)
                    continue
            # a location that some merged path never initialised: reading it there would be a read of indeterminate memory,
            # so the merged content may be whatever the initialised paths hold (no fresh symbols needed)
            live = [(c, cnd) for c, cnd in zip(cells, conds) if c is not None]
            if len(live) < len(cells) and s.opts.get('uninit_live', '1') == '1':
                if not live: continue
                if all(same(c, live[0][0]) for c, _ in live):
                    m.mem.d[a] = live[0][0]; continue
                cells2 = [c for c, _ in live]; conds2 = [cnd for _, cnd in live]
            else: cells2, conds2 = cells, conds
            bs = [byte(c) for c in cells2]
            v = bs[-1]
            for b, c in zip(reversed(bs[:-1]), reversed(conds2[:-1])): v = s.ite_b(c, b, v, 8)
            m.mem.d[a] = (v, 8, 0)

    def join_node(s, m, parents):
        uniq = []
        for x in parents:
            if not any(x is y for y in uniq): uniq.append(x)
        if len(uniq) == 1: return uniq[0]
        j = Ev(); j.id = -1; j.tid = s.tid; j.kind = 'J'; j.addr = None; j.size = 0; j.val = None; j.order = None
        j.guard = list(m.pc); j.parent = uniq; j.depth = 0; j.rmw = None; j.text = 'join'; j.full = False
        j.init_val = None; j.fx = None; j.aset = None; j.dom = 0; j.wof = None; j.seq = None; j.lab = None
        return j

    def merge(s, base, outs):
        """merge finished callee paths (all forked from `base`) into one path"""
        if len(outs) == 1: return outs[0]
        group = [p for p, _ in outs]
        k = s.common_prefix([p.pc for p in group])
        conds = [z3.And(*p.pc[k:]) if len(p.pc) > k else z3.BoolVal(True) for p in group]
        m = group[0].fork()
        m.pc = list(group[0].pc[:k]) + [z3.simplify(z3.Or(*conds))]
        rv = outs[-1][1]
        if rv is not None:
            for (p, v), c in zip(reversed(outs[:-1]), reversed(conds[:-1])): rv = s.ite_b(c, v, rv)
        s.merge_mem(m, group, conds)
        m.sp = max(p.sp for p in group)
        m.last = s.join_node(m, [p.last for p in group])
        m.nsym = max(p.nsym for p in group) + 1
        m.nnd = max(getattr(p, 'nnd', 0) for p in group)
        m.nmem = s.merge_scalar([p.nmem for p in group], conds)
        s.merge_alloc_cnt(m, group)
        return (m, rv)

    def ite_b(s, c, a, b, w=None):
        if isinstance(a, list): return [s.ite_b(c, x, y) for x, y in zip(a, b)]
        if is_c(a) and is_c(b) and a == b: return a
        if not is_c(a) and not is_c(b) and a.eq(b): return a
        if w is None: w = a.size() if not is_c(a) else (b.size() if not is_c(b) else 64)
        return simp(z3.If(c, tobv(a, w), tobv(b, w)))

    def goto(s, p, f, label):
        n = f.visits.get(label, 0) + 1
        f.visits[label] = n
        if s.phase == 'threads' and getattr(s, 'opts', {}).get('loop_reset') == '1':
            # CBMC-style: the unwinding counter of an inner loop restarts whenever the loop is entered from outside (an inlined
            # retry loop inside an outer loop otherwise uses up its bound across the outer iterations)
            _, _, loops = s.cfg_info(f.fn)
            if label in loops and f.block not in loops[label]:
                f.symv[label] = 0; f.symexit.discard(label)
        bound = s.loop_bound if s.phase != 'init' else 100000
        if s.is_final: bound = 64
        if s.loop_bounds and s.phase != 'init':
            for k, v in s.loop_bounds.items():
                if k in f.fn.name: bound = v
        if s.phase != 'init':
            if label in f.symexit:
                f.symexit.discard(label); f.symv[label] = f.symv.get(label, 0) + 1
            if s.phase != 'seq': n = f.symv.get(label, 0) + 1 if n < 5000 else n
            elif n > 40: return False
        if n > bound + 1:
            s.exceeded.append((list(p.pc), '%s:%s' % (f.fn.name[:40], label), s.tid))
            return False
        src = f.block
        blk = f.fn.blocks[label]
        vals = {}; k = 0
        while k < len(blk) and blk[k].op == 'phi':
            ins = blk[k]
            for (v, lb) in ins.inc:
                if lb == src:
                    vals[ins.res] = s.val(p, v, ins.ty); break
            else: raise Unsupported('phi no pred %s in %s' % (src, f.fn.name))
            k += 1
        f.regs.update(vals)
        f.prev = src; f.block = label; f.ip = k; f.start_ip = k
        return True

    def mark_symloops(s, f):
        _, nest, loops = s.cfg_info(f.fn)
        for h in nest.get(f.block, []): f.symexit.add(h)

    def branch(s, p, f, cond, lt, lf):
        cond = simp(cond)
        if is_c(cond):
            return 'moved' if s.goto(p, f, lt if cond & 1 else lf) else 'end'
        c = tobool(cond)
        if s.phase == 'seq': raise Unsupported('symbolic branch in pre-run')
        s.stats['forks'] += 1
        p.nsym += 1
        _, nest, loops = s.cfg_info(f.fn)
        isexit = False
        for h in nest.get(f.block, []):
            if (lt in loops[h]) != (lf in loops[h]): f.symexit.add(h); isexit = True
        q = p.fork(); q.pc.append(c)
        if s.feasible(q.pc, isexit):
            p.pc.append(z3.Not(c))
            if not s.feasible(p.pc, isexit):
                s.mark_symloops(q.frames[-1])       # a symbolic decision with one side pruned still makes the iteration symbolic
                p = None
            if s.goto(q, q.frames[-1], lt): s.work.append(q)
            if p is None: return 'end'
        else:
            s.mark_symloops(f)
            p.pc.append(z3.Not(c))
            if not s.feasible(p.pc, isexit): return 'end'
        return 'moved' if s.goto(p, f, lf) else 'end'

    # ------------------------------------------------------------------ memory access
    def is_private(s, p, addr):
        if getattr(s, 'sequential', False) and s.phase == 'threads': return is_c(addr)
        return is_c(addr) and addr >= STACK_BASE

    def split_cands(s, p, addr, text):
        """candidates of a symbolic pointer: (own-stack addresses, shared addresses); other threads' stacks are dropped
        (the recorded enumeration obligation makes a reachable cross-thread stack access an inconclusive result)"""
        cands = s.enum_values(addr, p.pc, record=False)
        lo = STACK_BASE + (s.tid + 1) * 0x100000000; hi = lo + 0x100000000
        priv = [a for a in cands if lo <= a < hi]
        shared = [a for a in cands if a < STACK_BASE]
        s.oblig.append(('enum', list(p.pc), addr, priv + shared))
        return priv, shared

    def seq_load(s, p, addr, size):
        cands = s.enum_values(addr, p.pc, limit=256, record=False)
        if not cands: return None
        v = None
        oob = s.opts.get('oob') == '1'
        for a in cands:
            if oob and HEAP_BASE <= a < STACK_BASE and not s.in_alloc(a, size):
                s.asserts.append((list(p.pc) + [tobv(addr, 64) == a], z3.BoolVal(False), 'OOB load of %d bytes at %#x' % (size, a), s.tid)); continue
            x = p.mem.load(a, size, undef=lambda q: 0)
            v = x if v is None else s.ite_b(tobv(addr, 64) == a, x, v, 8 * size)
        if v is None: return 0
        return v

    def seq_store(s, p, addr, size, val):
        cands = s.enum_values(addr, p.pc, limit=256, record=False)
        for a in cands:
            old = p.mem.load(a, size, undef=lambda q: 0)
            p.mem.store(a, size, s.ite_b(tobv(addr, 64) == a, val, old, 8 * size))

    def shared_load(s, p, addr, size, order, text, rmw=False):
        if s.ext_globals and is_c(addr):
            for (lo, hi, nm) in s.ext_globals:
                if lo <= addr < hi: raise Unsupported('read of external data %s whose contents are not in the IR' % nm)
        if s.phase == 'init':
            if not is_c(addr): raise Unsupported('symbolic address in init')
            return s.init_mem.load(addr, size, undef=lambda a: 0), None
        if s.phase == 'seq' and not s.is_private(p, addr):
            if not is_c(addr): raise Unsupported('symbolic address in pre-run')
            return s.seq_mem.load(addr, size, undef=lambda a: 0), None
        if getattr(s, 'sequential', False) and s.phase == 'threads' and s.opts.get('oob') == '1' and is_c(addr) and HEAP_BASE <= addr < STACK_BASE and not s.in_alloc(addr, size):
            # memory-safety obligation: a load outside every live allocation (e.g. past the end of the parser's input)
            s.asserts.append((list(p.pc), z3.BoolVal(False), 'OOB load of %d bytes at %#x: %s' % (size, addr, text[:40]), s.tid))
        if s.is_private(p, addr):
            return p.mem.load(addr, size, undef=(lambda a: 0) if getattr(s, 'sequential', False) else (lambda a: s.fresh('undef', 8))), None
        if getattr(s, 'sequential', False) and s.phase == 'threads':
            v = s.seq_load(p, addr, size)
            if v is None: p.dead = True; return 0, None
            return v, None
        if is_c(addr) and not rmw and not s.wild and not any((addr + i) in s.may_written for i in range(size)):
            return s.init_mem.load(addr, size, undef=lambda a: 0), None
        if is_c(addr) and not rmw and not s.wild and s.phase == 'threads':
            if s.is_final:
                # the epilogue runs alone after every thread: a location it has already read (or written) cannot change
                if all(p.mem.has_local(addr + i) for i in range(size)): return p.mem.load(addr, size), None
            elif all(s.wtids.get(addr + i, set()) <= {s.tid} for i in range(size)):
                # only this thread ever writes these bytes: the load returns its own po-latest store (coherence)
                return p.mem.load(addr, size, undef=s.init_byte), None
        vpriv = None; inpriv = None
        if not is_c(addr) and s.phase == 'threads':
            priv, shared = s.split_cands(p, addr, text)
            if priv:                                  # symbolic pointer that may point into the thread's own stack
                for a in priv:
                    x = p.mem.load(a, size, undef=lambda q: s.fresh('undef', 8))
                    vpriv = x if vpriv is None else s.ite_b(tobv(addr, 64) == a, x, vpriv, 8 * size)
                if not shared: return vpriv, None
                if rmw: raise Unsupported('atomic RMW through a pointer that may target the stack: %s' % text[:80])
                inpriv = z3.Or(*[tobv(addr, 64) == a for a in priv])
            elif not shared:
                p.dead = True
                s.asserts.append((list(p.pc), z3.BoolVal(False), 'load through pointer with no valid target: ' + text[:60], s.tid))
                return 0, None
        v = s.fresh('r', 8 * size)
        if inpriv is not None: p.pc.append(z3.Not(inpriv))
        e = s.new_event(p, 'R', addr, size, v, order, text)
        if inpriv is not None: p.pc.pop()
        if s.phase == 'threads':
            rt = s.tid if is_c(addr) else -2
            for a0 in ([addr] if is_c(addr) else shared):
                for i in range(size):
                    rs = s.rtids.get(a0 + i)
                    if rs is None: s.rtids[a0 + i] = {rt}; s.wt_new = True
                    elif rt not in rs: rs.add(rt); s.wt_new = True
        s.read_of_var[str(v)] = e
        if not is_c(addr):
            e.aset = set(a for a in shared if s.in_alloc(a, size))
            s.oblig.append(('enum', list(e.guard), addr, sorted(e.aset)))
        elif s.is_final and s.phase == 'threads' and not rmw: p.mem.store(addr, size, v)
        if inpriv is not None: return s.ite_b(inpriv, vpriv, v, 8 * size), e
        return v, e

    def init_byte(s, a):
        c = s.init_mem.get(a)
        if c is None: return 0
        v, w, bi = c
        if is_c(v): return (v >> (8 * bi)) & 0xff
        return simp(z3.Extract(8 * bi + 7, 8 * bi, v))

    def shared_store(s, p, addr, size, val, order, text):
        if s.phase == 'init':
            if not is_c(addr): raise Unsupported('symbolic address in init')
            s.init_mem.store(addr, size, val); return None
        if s.phase == 'seq' and not s.is_private(p, addr):
            if not is_c(addr): raise Unsupported('symbolic address in pre-run')
            s.seq_mem.store(addr, size, val)
            if is_c(val): s.D.setdefault((addr, size), set()).add(val)
            return None
        if s.is_private(p, addr):
            p.mem.store(addr, size, val); return None
        if getattr(s, 'sequential', False) and s.phase == 'threads':
            s.seq_store(p, addr, size, val); return None
        if s.phase == 'threads':
            if is_c(addr):
                p.mem.store(addr, size, val)
                if not s.is_final and order == 'na' and s.opts.get('confine', '1') == '1' and \
                   all(s.wtids.get(addr + i, set()) <= {s.tid} and s.rtids.get(addr + i, set()) <= {s.tid} for i in range(size)):
                    # thread-confined location (nobody else reads or writes it, as far as the exploration rounds have
                    # found; a later discovery triggers another round): the store needs no event
                    s.note_write(p, addr, size, val)
                    return None
            elif s.is_final:
                # the epilogue runs alone: read the old contents of every candidate once, then keep everything path-local
                for a in [x for x in s.enum_values(addr, p.pc) if x < STACK_BASE and s.in_alloc(x, size)]:
                    old, _ = s.shared_load(p, a, size, 'na', text)
                    p.mem.store(a, size, s.ite_b(tobv(addr, 64) == a, val, old, 8 * size))
                return None
            else:
                priv, shared = s.split_cands(p, addr, text)
                for a in priv:
                    old = p.mem.load(a, size, undef=lambda q: s.fresh('undef', 8))
                    p.mem.store(a, size, s.ite_b(tobv(addr, 64) == a, val, old, 8 * size))
                if not shared:
                    if not priv: s.asserts.append((list(p.pc), z3.BoolVal(False), 'store through pointer with no valid target: ' + text[:60], s.tid))
                    return None
                if priv: p.pc.append(z3.Not(z3.Or(*[tobv(addr, 64) == a for a in priv])))
                e = s.new_event(p, 'W', addr, size, val, order, text)
                if priv: p.pc.pop()
                e.aset = set(a for a in shared if s.in_alloc(a, size))
                s.oblig.append(('enum', list(e.guard), addr, sorted(e.aset)))
                s.note_write(p, addr, size, val, addrs=sorted(e.aset))
                return e
        e = s.new_event(p, 'W', addr, size, val, order, text)
        s.note_write(p, addr, size, val)
        return e

    def note_write(s, p, addr, size, val=None, addrs=None):
        if addrs is None: addrs = [addr] if is_c(addr) else s.enum_values(addr, p.pc)
        vals = None
        if is_c(val): vals = [val]
        elif val is not None:
            try: vals = s.enum_values(val, p.pc, limit=8, record=False)
            except Unsupported: vals = None
        wt = s.tid if is_c(addr) else -2
        for a in addrs:
            for i in range(size):
                s.writes_seen.add(a + i)
                ws = s.wtids.get(a + i)
                if ws is None: s.wtids[a + i] = {wt}; s.wt_new = True
                elif wt not in ws: ws.add(wt); s.wt_new = True
            if vals is not None and s.phase != 'threads':
                cur = s.D.setdefault((a, size), set())
                for v in vals:
                    if v not in cur: cur.add(v); s.D_grew = True

    def domain(s, e):
        """guessed finite set of values read event e can return, or None if unknown. Only a heuristic:
        every use is backed by a proof obligation discharged in the final formula."""
        if getattr(e, 'dom', 0) != 0: return e.dom
        st = s.__dict__.setdefault('_dom_stack', [])
        if any(x is e for x in st):
            s._dom_taint = True; return None
        st.append(e); taint0 = s.__dict__.get('_dom_taint', False); s._dom_taint = False
        res = s.domain_compute(e)
        tainted = s._dom_taint
        st.pop(); s._dom_taint = taint0 or (tainted and bool(st))
        if not tainted: e.dom = res
        return res

    def domain_compute(s, e):
        if s.phase == 'threads' and getattr(s, 'prev_writes', None) is not None:
            st = s.__dict__.setdefault('_sub_stack', [])
            if not any(x is e for x in st):
                st.append(e)
                try: ws = s.writers_of(e)
                finally: st.pop()
                if ws is not None:
                    # contents that depend on unbounded symbols (clock values, nondet inputs) have no finite domain;
                    # contents that only depend on other reads are finite: keep the value-set guess (obligation-backed)
                    for w in ws:
                        if is_c(w): continue
                        if any(not v.startswith('r_') for v in s.vars_of(w)): return None
        if s.phase == 'threads':
            # values the possible writers (previous exploration round) can store, enumerated through their value terms;
            # includes init value and everything learnt by pre-runs / CEGAR widening
            try: vs = s.valset(e, 0, 512)
            except Unsupported: vs = None
            if vs is None or any(not is_c(v) for v in vs) or len(vs) > 256: return None
            return set(vs)
        try:
            addrs = [e.addr] if is_c(e.addr) else s.enum_values(e.addr, e.guard, record=False)
        except Unsupported:
            return None
        out = set()
        for a in addrs:
            k = (a, e.size)
            iv = s.init_mem.load(a, e.size, undef=lambda x: 0)
            if not is_c(iv): return None
            out |= s.D.get(k, set()) | {iv}
        if len(out) > 256: return None
        return out

    def writers_of(s, e):
        """value terms that read event e may return: init value + values of writes of the previous round that may alias"""
        try:
            if e.wof is not None: return e.wof
        except AttributeError: pass
        r = s.writers_of_(e)
        if r is not None: e.wof = r
        return r

    def writers_of_(s, e):
        out = []
        try:
            addrs = [e.addr] if is_c(e.addr) else s.enum_values(e.addr, e.guard, record=False)
        except Unsupported:
            return None
        for a in addrs:
            out.append(s.init_mem.load(a, e.size, undef=lambda x: 0))
        aset = set(addrs)
        for w in getattr(s, 'prev_writes', []):
            if w.size != e.size: continue
            try:
                if is_c(w.addr): ws = {w.addr}
                else:
                    if w.aset is None: w.aset = set(s.enum_values(w.addr, w.guard, record=False))
                    ws = w.aset
            except Unsupported: return None
            if ws & aset: out.append(w.val)
        return out

    def subst_enum(s, term, depth=0, cap=512):
        """enumerate concrete values of a term from the value sets of the read variables it mentions (value sets =
        init value + values of the possible writers of the previous exploration round, computed recursively)"""
        memo = s.__dict__.setdefault('_sub_memo', {})
        key = (term.get_id(), depth > 2)
        hit = memo.get(key)
        if hit is not None and hit[0] is term: return hit[1]      # the term is kept alive, so the id cannot be recycled
        s._sub_calls = getattr(s, '_sub_calls', 0) + 1
        if s._sub_calls > 20000: return None
        r = s.subst_enum_(term, depth, cap)
        memo[key] = (term, r)
        return r

    def pre_run_values(s, e):
        addrs = [e.addr] if is_c(e.addr) else (sorted(e.aset) if e.aset is not None else None)
        if addrs is None: return None
        vals = set()
        for a in addrs:
            iv = s.init_mem.load(a, e.size, undef=lambda x: 0)
            if not is_c(iv): return None
            vals |= s.D.get((a, e.size), set()) | {iv}
        return vals

    def valset(s, e, depth, cap):
        """replacements for the value of read event e (heuristic, obligation-backed): concrete values where the possible
        writers' values enumerate, otherwise the writers' value TERMS (e.g. tagged pointers whose tag is a clock value:
        the consumer masks the tag off, so the substituted address term still folds to a constant); or None"""
        if depth > 2: return s.pre_run_values(e)
        memo = s.__dict__.setdefault('_vs_memo', {})
        k = (id(e), depth)
        if k in memo and memo[k][0] is e: return memo[k][1]
        st = s.__dict__.setdefault('_sub_stack', [])
        if any(x is e for x in st): return s.pre_run_values(e)
        st.append(e)
        try:
            ws = s.writers_of(e)
            out = None
            if ws is not None:
                vals = set(); terms = []
                for w in ws:
                    if is_c(w): vals.add(w); continue
                    r = s.subst_enum(w, depth + 1, cap)
                    if r is not None: vals |= r
                    elif not any(w.eq(u) for u in terms): terms.append(w)
                    if len(vals) + len(terms) > cap: vals = None; break
                if vals is not None:
                    extra = s.pre_run_values(e)          # values learnt by CEGAR widening / pre-runs
                    if extra: vals |= extra
                    out = sorted(vals) + terms
        finally: st.pop()
        if out is None:
            out = s.pre_run_values(e)
            if out is not None: out = sorted(out)
        memo[k] = (e, out)
        return out

    def subst_enum_(s, term, depth=0, cap=512):
        allv = sorted(s.vars_of(term))
        vs = [v for v in allv if v in s.read_of_var]
        if not vs:
            sol = z3.Solver(); out = []
            while sol.check() == z3.sat:
                v = sol.model().eval(term, model_completion=True).as_long()
                out.append(v); sol.add(term != v)
                if len(out) > 64: return None
            return set(out)
        import itertools
        choices = []
        n = 1
        for v in vs:
            e = s.read_of_var[v]
            vals = s.valset(e, depth, cap)
            if vals is None: return None
            n *= max(1, len(vals))
            if n > cap: return None
            choices.append((e.val, 8 * e.size, list(vals)))
        out = set()
        for combo in itertools.product(*[c for _, _, c in choices]):
            t2 = z3.substitute(term, *[(var, tobv(val, w)) for (var, w, _), val in zip(choices, combo)])
            t2 = simp(t2)
            if is_c(t2): out.add(t2); continue
            r = s.subst_enum(t2, depth + 1, cap)
            if r is None: return None
            out |= r
        return out

    def enum_values(s, term, pc, limit=600, record=True):
        if is_c(term): return [term]
        used = False
        if s.phase == 'threads' and not getattr(s, 'sequential', False):
            r = None
            try: r = s.subst_enum(term)
            except Unsupported: r = None
            if r is not None and len(r) <= limit:
                out = sorted(r)
                if record: s.oblig.append(('enum', list(pc), term, list(out)))
                return out
        sol = s.local_solver
        s.assert_pc(pc); sol.push()
        try: return s.enum_fallback(sol, term, pc, limit, record)
        finally: sol.pop()

    def assert_pc(s, pc):
        st = s.__dict__.setdefault('_ls_stack', [])
        k = 0; n = min(len(st), len(pc))
        while k < n and st[k] is pc[k]: k += 1
        while len(st) > k: s.local_solver.pop(); st.pop()
        for c in pc[k:]:
            s.local_solver.push(); s.local_solver.add(c); st.append(c)

    def enum_fallback(s, sol, term, pc, limit, record):
        used = False
        for vn in sorted(s.vars_of(term)):
            e = s.read_of_var.get(vn)
            if e is None: continue
            dom = s.domain(e)
            if dom is None:      # lenient guess for enumeration only (obligation-backed): value sets of the pre-runs
                addrs = [e.addr] if is_c(e.addr) else (sorted(e.aset) if e.aset is not None else None)
                if addrs is not None:
                    dom = set()
                    for a in addrs:
                        iv = s.init_mem.load(a, e.size, undef=lambda x: 0)
                        if is_c(iv): dom |= s.D.get((a, e.size), set()) | {iv}
            if dom: sol.add(z3.Or(*[e.val == v for v in sorted(dom)])); used = True
        out = []
        while sol.check() == z3.sat:
            v = sol.model().eval(term, model_completion=True).as_long()
            out.append(v); sol.add(term != v)
            if len(out) > limit: raise Unsupported('address not enumerable: %s' % term)
        if used and record and s.phase == 'threads': s.oblig.append(('enum', list(pc), term, list(out)))
        return out

    def load_ty(s, p, addr, ty, order, text):
        ty = resolve(ty)
        if isinstance(ty, (IntTy, PtrTy, FloatTy)):
            sz = size_of(ty)
            v, e = s.shared_load(p, addr, sz, order, text)
            w = width_of(ty)
            if w < 8 * sz: v = simp(z3.Extract(w - 1, 0, tobv(v, 8 * sz))) if not is_c(v) else v & mask(w)
            return v
        if isinstance(ty, StructTy):
            return [s.load_ty(p, s.add64(addr, field_offset(ty, i)), et, order, text) for i, et in enumerate(ty.elems)]
        if isinstance(ty, (ArrTy, VecTy)):
            es = size_of(ty.elem)
            return [s.load_ty(p, s.add64(addr, i * es), ty.elem, order, text) for i in range(ty.n)]
        raise Unsupported('load_ty %r' % (ty,))

    def store_ty(s, p, addr, ty, val, order, text):
        ty = resolve(ty)
        if isinstance(ty, (IntTy, PtrTy, FloatTy)):
            sz = size_of(ty); w = width_of(ty)
            if w < 8 * sz: val = simp(z3.ZeroExt(8 * sz - w, tobv(val, w))) if not is_c(val) else val
            s.shared_store(p, addr, sz, val, order, text); return
        if isinstance(ty, StructTy):
            for i, et in enumerate(ty.elems): s.store_ty(p, s.add64(addr, field_offset(ty, i)), et, val[i], order, text)
            return
        if isinstance(ty, (ArrTy, VecTy)):
            es = size_of(ty.elem)
            for i in range(ty.n): s.store_ty(p, s.add64(addr, i * es), ty.elem, val[i], order, text)
            return
        raise Unsupported('store_ty %r' % (ty,))

    # ------------------------------------------------------------------ instruction step
    def binop(s, op, a, b, w):
        if is_c(a) and is_c(b):
            m = mask(w); a &= m; b &= m
            sa = a - (1 << w) if a >> (w - 1) else a; sb = b - (1 << w) if b >> (w - 1) else b
            if op == 'add': return (a + b) & m
            if op == 'sub': return (a - b) & m
            if op == 'mul': return (a * b) & m
            if op == 'and': return a & b
            if op == 'or': return a | b
            if op == 'xor': return a ^ b
            if op == 'shl': return (a << b) & m if b < w else 0
            if op == 'lshr': return a >> b if b < w else 0
            if op == 'ashr': return (sa >> min(b, w - 1)) & m
            if op == 'udiv': return a // b if b else 0
            if op == 'urem': return a % b if b else 0
            if op == 'sdiv': return int(sa / sb) & m if sb else 0
            if op == 'srem': return (sa - sb * int(sa / sb)) & m if sb else 0
        A, B = tobv(a, w), tobv(b, w)
        r = {'add': lambda: A + B, 'sub': lambda: A - B, 'mul': lambda: A * B, 'and': lambda: A & B, 'or': lambda: A | B,
             'xor': lambda: A ^ B, 'shl': lambda: A << B, 'lshr': lambda: z3.LShR(A, B), 'ashr': lambda: A >> B,
             'udiv': lambda: z3.UDiv(A, B), 'urem': lambda: z3.URem(A, B), 'sdiv': lambda: A / B,
             'srem': lambda: z3.SRem(A, B)}[op]()
        if op == 'mul' and w == 64 and s.time_vars:
            # sec_k * 1e9  ->  tns_k - nsec_k   (so that sec * 1e9 + nsec folds back to the nanosecond clock variable)
            for x, y in ((a, b), (b, a)):
                if is_c(x) and x == 1000000000 and not is_c(y) and z3.is_const(y):
                    tv = s.time_vars.get(str(y))
                    if tv is not None: return simp(tv[1] - tv[0])
        if op in ('sdiv', 'srem', 'udiv', 'urem'): return r      # keep the operator visible (rel_timeout pattern)
        r = simp(r)
        return r

    def icmp(s, pred, a, b, w):
        if is_c(a) and is_c(b):
            m = mask(w); a &= m; b &= m
            sa = a - (1 << w) if a >> (w - 1) else a; sb = b - (1 << w) if b >> (w - 1) else b
            return int({'eq': a == b, 'ne': a != b, 'ult': a < b, 'ule': a <= b, 'ugt': a > b, 'uge': a >= b,
                        'slt': sa < sb, 'sle': sa <= sb, 'sgt': sa > sb, 'sge': sa >= sb}[pred])
        A, B = tobv(a, w), tobv(b, w)
        r = {'eq': lambda: A == B, 'ne': lambda: A != B, 'ult': lambda: z3.ULT(A, B), 'ule': lambda: z3.ULE(A, B),
             'ugt': lambda: z3.UGT(A, B), 'uge': lambda: z3.UGE(A, B), 'slt': lambda: A < B, 'sle': lambda: A <= B,
             'sgt': lambda: A > B, 'sge': lambda: A >= B}[pred]()
        r = z3.simplify(r)
        if z3.is_true(r): return 1
        if z3.is_false(r): return 0
        return z3.If(r, z3.BitVecVal(1, 1), z3.BitVecVal(0, 1))

    SCHED_CALLS = ('llvm.memcpy', 'llvm.memmove', 'llvm.memset', 'vf_futex_wait', 'vf_futex_wake_one', 'vf_futex_wake_all', 'syscall',
                   'pthread_mutex_lock', 'pthread_mutex_unlock')

    def is_sched_point(s, ins):
        """instructions before which tools/instrument.py inserts a scheduling point in the native replay build"""
        if ins.op in ('load', 'store', 'atomicrmw', 'cmpxchg', 'fence'): return True
        if ins.op == 'call' and isinstance(ins.callee, GlobalRef):
            n = ins.callee.name[1:]
            return n.startswith(s.SCHED_CALLS)
        return False

    def step(s, p, f, ins):
        op = ins.op; R = f.regs
        V = lambda x, t=None: s.val(p, x, t)
        if s.phase == 'threads' and s.is_sched_point(ins):
            p.nmem = p.nmem + 1 if is_c(p.nmem) else simp(p.nmem + 1)
        if op in BINOPS:
            t = resolve(ins.ty)
            if isinstance(t, FloatTy): R[ins.res] = s.fresh('fp', t.bits); return
            if isinstance(t, VecTy):
                a, b = V(ins.a), V(ins.b); w = width_of(t.elem)
                R[ins.res] = [s.binop(op, x, y, w) for x, y in zip(a, b)]; return
            R[ins.res] = s.binop(op, V(ins.a, t), V(ins.b, t), width_of(t)); return
        if op == 'icmp':
            t = resolve(ins.opty)
            if isinstance(t, VecTy):
                a, b = V(ins.a), V(ins.b); w = width_of(t.elem)
                R[ins.res] = [s.icmp(ins.pred, x, y, w) for x, y in zip(a, b)]; return
            R[ins.res] = s.icmp(ins.pred, V(ins.a, t), V(ins.b, t), width_of(t)); return
        if op == 'fcmp': R[ins.res] = s.fresh('fcmp', 1); return
        if op == 'cast':
            ft, tt = resolve(ins.fromty), resolve(ins.ty); a = V(ins.a, ft); c = ins.cast
            if isinstance(ft, VecTy) or isinstance(tt, VecTy):
                R[ins.res] = s.vec_cast(c, a, ft, tt); return
            if isinstance(ft, (StructTy, ArrTy)): R[ins.res] = a; return
            fw, tw = width_of(ft), width_of(tt)
            if c in ('bitcast', 'inttoptr', 'ptrtoint', 'addrspacecast', 'trunc', 'zext'):
                if tw == fw: R[ins.res] = a
                elif tw < fw: R[ins.res] = (a & mask(tw)) if is_c(a) else simp(z3.Extract(tw - 1, 0, a))
                else: R[ins.res] = a if is_c(a) else simp(z3.ZeroExt(tw - fw, a))
            elif c == 'sext':
                if is_c(a):
                    a &= mask(fw); R[ins.res] = (a - (1 << fw)) & mask(tw) if a >> (fw - 1) else a
                else: R[ins.res] = simp(z3.SignExt(tw - fw, a))
            else: R[ins.res] = s.fresh('fpcast', tw)
            return
        if op == 'select':
            c = V(ins.c); a = V(ins.a, ins.ty); b = V(ins.b, ins.ty)
            if isinstance(c, list): R[ins.res] = [s.ite(ci, x, y, None) for ci, x, y in zip(c, a, b)]; return
            R[ins.res] = s.ite(c, a, b, ins.ty); return
        if op == 'gep':
            base = V(ins.ptr)
            R[ins.res] = s.gep(base, ins.basety, [(it, V(iv, it)) for it, iv in ins.idx]); return
        if op == 'load':
            R[ins.res] = s.load_ty(p, V(ins.ptr), ins.ty, ins.order, ins.text); return
        if op == 'store':
            s.store_ty(p, V(ins.ptr), ins.ty, V(ins.val, ins.ty), ins.order, ins.text); return
        if op == 'atomicrmw':
            addr = V(ins.ptr); sz = size_of(ins.ty); w = 8 * sz; v = V(ins.val, ins.ty)
            old, er = s.shared_load(p, addr, sz, ins.order, ins.text, rmw=True)
            rop = ins.rmwop
            if rop == 'xchg': new = v
            elif rop in ('add', 'sub', 'and', 'or', 'xor'): new = s.binop(rop, old, v, w)
            elif rop in ('max', 'min', 'umax', 'umin'):
                pred = {'max': 'sgt', 'min': 'slt', 'umax': 'ugt', 'umin': 'ult'}[rop]
                new = s.ite(s.icmp(pred, old, v, w), old, v, ins.ty)
            else: raise Unsupported('rmw ' + rop)
            ew = s.shared_store(p, addr, sz, new, ins.order, ins.text)
            if er is not None and ew is not None: er.rmw = ew; ew.rmw = er
            R[ins.res] = old; return
        if op == 'cmpxchg':
            addr = V(ins.ptr); t = ins.opty; sz = size_of(t); w = 8 * sz
            cmpv = V(ins.cmp, t); newv = V(ins.new, t)
            old, er = s.shared_load(p, addr, sz, ins.order, ins.text, rmw=True)
            ok = s.icmp('eq', old, cmpv, w)
            # weak cmpxchg may fail spuriously: model as strong (spurious failure only adds retries)
            if is_c(ok):
                if ok:
                    ew = s.shared_store(p, addr, sz, newv, ins.order, ins.text)
                    if er is not None and ew is not None: er.rmw = ew; ew.rmw = er
                elif er is not None: er.order = ins.forder
                R[ins.res] = [old, ok]; return
            # fork on success so that the write event exists only on the success path
            s.stats['forks'] += 1
            p.nsym += 1
            s.mark_symloops(f)
            q = p.fork(); q.pc.append(tobool(ok))
            if s.feasible(q.pc):
                qf = q.frames[-1]
                ew = s.shared_store(q, addr, sz, newv, ins.order, ins.text)
                if er is not None and ew is not None: ew.rmw = er   # er.rmw set below (shared event): mark as possible rmw
                if er is not None: er.rmw = ew if er.rmw is None else er.rmw
                qf.regs[ins.res] = [old, 1]
                s.work.append(q)
            p.pc.append(z3.Not(tobool(ok)))
            if not s.feasible(p.pc): return 'end'
            R[ins.res] = [old, 0]; return
        if op == 'fence':
            if s.phase != 'init':
                e = s.new_event(p, 'F', None, 0, None, ins.order, ins.text)
            return
        if op == 'br':
            if ins.cond is None:
                return 'moved' if s.goto(p, f, ins.t) else 'end'
            return s.branch(p, f, V(ins.cond), ins.t, ins.f)
        if op == 'switch':
            v = V(ins.val, ins.valty); w = width_of(ins.valty)
            if is_c(v):
                for cv, lb in ins.cases:
                    if (cv.val & mask(w)) == v: return 'moved' if s.goto(p, f, lb) else 'end'
                return 'moved' if s.goto(p, f, ins.default) else 'end'
            raise Unsupported('symbolic switch (run opt -lowerswitch)')
        if op == 'ret':
            rv = V(ins.val, ins.ty) if ins.val is not None else None
            p.frames.pop()
            p.retval = rv
            return 'ret'
        if op == 'unreachable':
            return 'end'
        if op == 'alloca':
            sz = size_of(ins.allocty)
            n = V(ins.count) if ins.count is not None else 1
            if not is_c(n): raise Unsupported('symbolic alloca')
            if s.phase == 'init': a = s.malloc(sz * n)
            else:
                p.sp = (p.sp + 15) // 16 * 16; a = p.sp; p.sp += max(sz * n, 1) + 16
            R[ins.res] = a; return
        if op == 'extractvalue':
            a = V(ins.a, ins.aggty)
            for i in ins.idx: a = a[i]
            R[ins.res] = a; return
        if op == 'insertvalue':
            a = V(ins.a, ins.ty); a = s.deep_copy(a)
            tgt = a
            for i in ins.idx[:-1]: tgt = tgt[i]
            tgt[ins.idx[-1]] = V(ins.elt)
            R[ins.res] = a; return
        if op == 'extractelement':
            a = V(ins.a, ins.vecty); i = V(ins.idx)
            if not is_c(i): raise Unsupported('symbolic extractelement')
            R[ins.res] = a[i]; return
        if op == 'insertelement':
            a = list(V(ins.a, ins.ty)); i = V(ins.idx)
            a[i] = V(ins.elt); R[ins.res] = a; return
        if op == 'shufflevector':
            a = V(ins.a, ins.vecty); b = V(ins.b, ins.vecty); m = ins.mask
            if m.kind in ('zero', 'undef'): idxs = [0] * resolve(ins.ty).n
            else: idxs = [e.val if e.kind == 'int' else 0 for e in m.val]
            ab = list(a) + list(b)
            R[ins.res] = [ab[i] for i in idxs]; return
        if op == 'call':
            return s.call(p, f, ins)
        raise Unsupported('op %s' % op)

    def deep_copy(s, a):
        return [s.deep_copy(x) for x in a] if isinstance(a, list) else a

    def ite(s, c, a, b, ty):
        c = simp(c) if not is_c(c) else c
        if is_c(c): return a if c & 1 else b
        if isinstance(a, list): return [s.ite(c, x, y, None) for x, y in zip(a, b)]
        if is_c(a) and is_c(b) and a == b: return a
        w = width_of(ty) if ty is not None else (a.size() if not is_c(a) else b.size())
        return simp(z3.If(tobool(c), tobv(a, w), tobv(b, w)))

    def vec_cast(s, c, a, ft, tt):
        if isinstance(ft, VecTy) and isinstance(tt, VecTy) and ft.n == tt.n:
            fw, tw = width_of(ft.elem), width_of(tt.elem)
            out = []
            for x in a:
                if c == 'sext':
                    out.append(simp(z3.SignExt(tw - fw, tobv(x, fw))))
                elif c == 'zext': out.append(simp(z3.ZeroExt(tw - fw, tobv(x, fw))))
                elif c == 'trunc': out.append(simp(z3.Extract(tw - 1, 0, tobv(x, fw))))
                elif c == 'bitcast' and fw == tw: out.append(x)
                else: raise Unsupported('vec cast ' + c)
            return out
        if c == 'bitcast':
            # flatten to bits (little endian) and regroup
            def flat(v, t):
                t = resolve(t)
                if isinstance(t, VecTy):
                    w = width_of(t.elem); return [(x, w) for x in v]
                return [(v, width_of(t))]
            parts = flat(a, ft)
            big = None
            for x, w in reversed(parts):
                xb = tobv(x, w); big = xb if big is None else z3.Concat(big, xb)
            big = simp(big)
            if isinstance(tt, VecTy):
                w = width_of(tt.elem)
                return [simp(z3.Extract(w * i + w - 1, w * i, tobv(big, w * tt.n))) for i in range(tt.n)]
            return big
        raise Unsupported('vec cast %s %r %r' % (c, ft, tt))

    # ------------------------------------------------------------------ calls and stubs
    def call(s, p, f, ins):
        callee = ins.callee
        args = [s.val(p, av, at) for at, av in ins.args]
        if isinstance(callee, Local):
            fa = simp(f.regs[callee.name])
            if not is_c(fa):
                cands = [v for v in s.enum_values(fa, p.pc, limit=8)]
                if not cands: return 'end'
                for v in cands[1:]:
                    q = p.fork(); q.pc.append(fa == v); q.frames[-1].regs[callee.name] = v; q.frames[-1].ip -= 1
                    s.work.append(q)
                p.pc.append(fa == cands[0]); f.regs[callee.name] = cands[0]; fa = cands[0]
            fn = s.addr2f.get(fa)
            if fn is None:
                s.asserts.append((list(p.pc), z3.BoolVal(False), 'indirect call to invalid target %#x: %s' % (fa, ins.text[:60]), s.tid)); return 'end'
            name = fn.name
        else:
            name = callee.name; fn = s.mod.funcs.get(name)
        skip = getattr(s, 'opts', {}).get('skipfn')
        if skip and any(k in name for k in skip.split(',')):
            # scenario-declared diagnostics-only function (logging): not executed; listed in the evidence assumptions
            s.fn_seen.add(name + ' [skipped: diagnostics only]')
            if ins.res is not None: f.regs[ins.res] = 0
            return
        if fn is not None and fn.defined:
            work = s.work
            outs = s.exec_fn(p, fn, args)
            s.work = work
            if not outs: return 'end'
            m, rv = s.merge(p, outs)
            keep_frames = p.frames
            p.pc = m.pc; p.mem = m.mem; p.sp = m.sp; p.last = m.last; p.errno_addr = m.errno_addr; p.nsym = m.nsym; p.nmem = m.nmem
            if hasattr(m, 'nnd'): p.nnd = m.nnd
            # per-path bookkeeping the callee extended: allocation-site counters (else the next call of the same allocating
            # function would be handed the SAME address again) and thread-exit destructors registered inside the callee
            if hasattr(m, 'alloc_cnt'): p.alloc_cnt = m.alloc_cnt
            if hasattr(m, 'tls_dtors'): p.tls_dtors = m.tls_dtors
            if ins.res is not None: f.regs[ins.res] = rv
            return
        r = s.stub(p, f, ins, name, args)
        if isinstance(r, str) and r == 'end': return 'end'
        if ins.res is not None: f.regs[ins.res] = r[0] if isinstance(r, tuple) else r
        return

    def stub(s, p, f, ins, name, a):
        n = name[1:]
        if n.startswith('llvm.lifetime') or n.startswith('llvm.dbg') or n.startswith('llvm.experimental.noalias') or n == 'llvm.assume' or n.startswith('llvm.prefetch'):
            return 0
        site = (f.fn.name, f.block, f.ip)
        if n in ('_ZnwmSt11align_val_t', '_ZnamSt11align_val_t'): return s.alloc(p, a[0], a[1], site)
        if n in ('_Znwm', '_Znam', 'malloc'): return s.alloc(p, a[0], 16, site)
        if n in ('_ZdlPvmSt11align_val_t', '_ZdlPv', '_ZdlPvm', 'free', '_ZdaPv', '_ZdlPvSt11align_val_t'): return 0
        if n.startswith('llvm.memset'):
            dst, byte, ln = a[0], a[1], a[2]
            if not is_c(ln):
                # a length computed from shared values (e.g. the bucket count of the table another thread may have chained): enumerate
                # it like a symbolic allocation size (obligation-backed); a single candidate is used, several are unsupported
                vs = s.enum_values(ln, p.pc)
                if not vs: return 'end'
                if len(vs) != 1:
                    # several candidate lengths (all multiples of 8): guarded 8-byte stores up to the largest, like symbolic memcpy
                    if any(l % 8 for l in vs) or not is_c(byte) or len(vs) > 16: raise Unsupported('symbolic memset length in %s: %s' % (f.fn.name[:120], str(ln)[:200]))
                    vv = 0
                    for k in range(8): vv |= (byte & 0xff) << (8 * k)
                    for off in range(0, max(vs), 8):
                        old, _ = s.shared_load(p, s.add64(dst, off), 8, 'na', ins.text)
                        s.shared_store(p, s.add64(dst, off), 8, s.ite_b(z3.UGT(tobv(ln, 64), off), vv, old, 64), 'na', ins.text)
                    return 0
                ln = vs[0]
            i = 0
            while i < ln:
                c = 8 if ln - i >= 8 and (not is_c(dst) or (dst + i) % 8 == 0) else 1
                v = byte if is_c(byte) else None
                if v is None: raise Unsupported('symbolic memset byte')
                vv = 0
                for k in range(c): vv |= (v & 0xff) << (8 * k)
                s.shared_store(p, s.add64(dst, i), c, vv, 'na', ins.text); i += c
            return 0
        if n.startswith('llvm.memcpy') or n.startswith('llvm.memmove'):
            dst, src, ln = a[0], a[1], a[2]
            if not is_c(ln):
                lens = s.enum_values(ln, p.pc, limit=16)
                if not lens: return 'end'
                mx = max(lens)
                if any(l % 8 for l in lens):
                    if mx > 64: raise Unsupported('symbolic memcpy length (not multiple of 8, > 64)')
                    tmpb = []
                    for off in range(mx):
                        v, _ = s.shared_load(p, s.add64(src, off), 1, 'na', ins.text); tmpb.append(v)
                    for off in range(mx):
                        old, _ = s.shared_load(p, s.add64(dst, off), 1, 'na', ins.text)
                        s.shared_store(p, s.add64(dst, off), 1, s.ite_b(z3.UGT(tobv(ln, 64), off), tmpb[off], old, 8), 'na', ins.text)
                    return 0
                for off in range(0, mx, 8):
                    v, _ = s.shared_load(p, s.add64(src, off), 8, 'na', ins.text)
                    old, _ = s.shared_load(p, s.add64(dst, off), 8, 'na', ins.text)
                    s.shared_store(p, s.add64(dst, off), 8, s.ite_b(z3.UGT(tobv(ln, 64), off), v, old, 64), 'na', ins.text)
                return 0
            i = 0; tmp = []
            while i < ln:
                c = 8 if ln - i >= 8 else 1
                v, _ = s.shared_load(p, s.add64(src, i), c, 'na', ins.text); tmp.append((i, c, v)); i += c
            for i, c, v in tmp: s.shared_store(p, s.add64(dst, i), c, v, 'na', ins.text)
            return 0
        if n.startswith('llvm.ctlz'):
            w = width_of(ins.ty); x = a[0]
            if is_c(x): return w - x.bit_length()
            r = z3.BitVecVal(w, w)
            for i in range(w): r = z3.If(z3.Extract(i, i, x) == 1, z3.BitVecVal(w - 1 - i, w), r)
            return simp(r)
        if n.startswith('llvm.cttz'):
            w = width_of(ins.ty); x = a[0]
            if is_c(x): return (x & -x).bit_length() - 1 if x else w
            r = z3.BitVecVal(w, w)
            for i in reversed(range(w)): r = z3.If(z3.Extract(i, i, x) == 1, z3.BitVecVal(i, w), r)
            return simp(r)
        if n.startswith('llvm.ctpop'):
            w = width_of(ins.ty); x = a[0]
            if is_c(x): return bin(x).count('1')
            r = z3.BitVecVal(0, w)
            for i in range(w): r = r + z3.ZeroExt(w - 1, z3.Extract(i, i, x))
            return simp(r)
        if n.startswith('llvm.umax') or n.startswith('llvm.umin') or n.startswith('llvm.smax') or n.startswith('llvm.smin'):
            w = width_of(ins.ty); pred = {'umax': 'ugt', 'umin': 'ult', 'smax': 'sgt', 'smin': 'slt'}[n[5:9]]
            return s.ite(s.icmp(pred, a[0], a[1], w), a[0], a[1], ins.ty)
        if n.startswith('llvm.usub.sat') or n.startswith('llvm.uadd.sat'):
            w = width_of(ins.ty); x, y = a[0], a[1]
            if n.startswith('llvm.usub'):
                return s.ite(s.icmp('ugt', x, y, w), s.binop('sub', x, y, w), 0, ins.ty)
            r = s.binop('add', x, y, w)
            return s.ite(s.icmp('ult', r, x, w), mask(w), r, ins.ty)
        if n in ('_ZNSt6localeC1Ev', '_ZNSt6localeD1Ev', '_ZNSt15basic_streambufIcSt11char_traitsIcEED2Ev', '__cxa_atexit'): return 0
        if n in ('_ZSt17__throw_bad_allocv', '_ZSt20__throw_length_errorPKc', '_ZSt28__throw_bad_array_new_lengthv'): return 'end'
        if n == '__cxa_guard_acquire':
            v, _ = s.shared_load(p, a[0], 1, 'acquire', ins.text)
            if is_c(v): return 0 if v & 1 else 1
            raise Unsupported('symbolic static-init guard (initialise the static in vf_init)')
        if n == '__cxa_guard_release':
            s.shared_store(p, a[0], 1, 1, 'release', ins.text); return 0
        if n == '_ZN7babylon15SanitizerHelper6poisonEPKvm': return 0
        if n == '__cxa_thread_atexit':
            # thread-exit destructor of a thread_local object: remembered per (harness) thread, run by vf_thread_exit / at
            # the end of the thread body
            lst = list(getattr(p, 'tls_dtors', ())); lst.append((s.tid, a[0], a[1])); p.tls_dtors = lst
            return 0
        if n == '__errno_location':
            if p.errno_addr is None:
                p.sp = (p.sp + 15) // 16 * 16; p.errno_addr = p.sp; p.sp += 16; p.mem.store(p.errno_addr, 4, 0)
            return p.errno_addr
        if n in ('vf_yield', 'vf_usleep', 'sched_yield', 'usleep'): return 0
        if n in ('memcmp', 'bcmp'):
            ln = a[2]
            if not is_c(ln): raise Unsupported('symbolic memcmp length')
            r = 0
            for i in reversed(range(ln)):
                x, _ = s.shared_load(p, s.add64(a[0], i), 1, 'na', ins.text); y, _ = s.shared_load(p, s.add64(a[1], i), 1, 'na', ins.text)
                if is_c(x) and is_c(y): r = r if x == y else ((1 if x > y else -1) & mask(32))
                else: r = s.ite(s.icmp('eq', x, y, 8), r, s.ite(s.icmp('ugt', x, y, 8), 1, mask(32), IntTy(32)), IntTy(32))
            return r
        if n == 'strlen':
            k = 0
            while True:
                x, _ = s.shared_load(p, s.add64(a[0], k), 1, 'na', ins.text)
                if not is_c(x): raise Unsupported('symbolic strlen')
                if x == 0: return k
                k += 1
        if n in ('nanosleep',): return 0
        if n in ('_ZNSt8ios_base4InitC1Ev', '_ZNSt8ios_base4InitD1Ev', '_ZNSt3pmr15memory_resourceD2Ev'): return 0
        if n == 'sysconf': return 4096
        if n == '_ZN7babylon13LoggerManager8instanceEv':
            # logging is not modelled: the root logger's min_severity byte is above every severity, so BABYLON_LOG statements are skipped
            if not getattr(s, 'logger_init', False):
                s.logger_init = True
                for i in range(192): s.init_mem.store(0x7200 + i, 1, 0x7f)
            return 0x7200
        if n == '_ZNSt3pmr19new_delete_resourceEv': return 0x7100      # opaque default upstream (harnesses install their own)
        if n in ('pthread_mutex_lock', 'pthread_mutex_trylock'):
            # a mutex is a lock word: acquire-RMW 0 -> 1; executions in which the lock is held at that moment are excluded
            # (blocking is a scheduling constraint; critical sections are finite). Deadlock on mutexes is outside the claim.
            if s.phase == 'init': s.init_mem.store(a[0], 4, 1); return 0
            old, er = s.shared_load(p, a[0], 4, 'acquire', ins.text, rmw=True)
            ew = s.shared_store(p, a[0], 4, 1, 'acquire', ins.text)
            if er is not None and ew is not None: er.rmw = ew; ew.rmw = er
            if not is_c(old): s.assumes.append((list(p.pc), tobv(old, 32) == 0)); p.pc.append(tobv(old, 32) == 0)
            elif old != 0: s.assumes.append((list(p.pc), z3.BoolVal(False))); return 'end'
            return 0
        if n == 'pthread_mutex_unlock':
            if s.phase == 'init': s.init_mem.store(a[0], 4, 0); return 0
            s.shared_store(p, a[0], 4, 0, 'release', ins.text); return 0
        if n == 'vf_assert':
            c = simp(a[0])
            if is_c(c):
                if not (c & 1): s.asserts.append((list(p.pc), z3.BoolVal(False), ins.text, s.tid))
            else: s.asserts.append((list(p.pc), tobool(c), ins.text, s.tid))
            return 0
        if n == 'vf_check':
            c = simp(a[0]); lab = 'L%d' % (a[1] if is_c(a[1]) else -1)
            if is_c(c):
                if not (c & 1): s.asserts.append((list(p.pc), z3.BoolVal(False), lab, s.tid))
                else: s.asserts.append((list(p.pc), z3.BoolVal(True), lab, s.tid))
            else: s.asserts.append((list(p.pc), tobool(c), lab, s.tid))
            return 0
        if n == 'vf_assume':
            c = simp(a[0])
            if is_c(c):
                if c & 1: return 0
                s.assumes.append((list(p.pc), z3.BoolVal(False))); return 'end'
            s.assumes.append((list(p.pc), tobool(c)))
            p.pc.append(tobool(c)); return 0
        if n == 'vf_nondet64':
            v = s.fresh('nd', 64)
            k = getattr(p, 'nnd', 0); p.nnd = k + 1                 # position of this call along its path (native replay order)
            s.__dict__.setdefault('nd_info', {})[str(v)] = (list(p.pc), k, v, s.tid)
            return v
        if n == 'syscall':
            # the default SchedInterface: syscall(__NR_futex, addr, FUTEX_WAIT|WAKE | FUTEX_PRIVATE_FLAG, val[, timeout])
            if not (is_c(a[0]) and a[0] == 202 and is_c(a[2])): raise Unsupported('syscall other than futex')
            opn = a[2] & 0x7f
            if opn == 0: n = 'vf_futex_wait'; a = [a[1], a[3] if is_c(a[3]) else simp(z3.Extract(31, 0, tobv(a[3], 64))), a[4] if len(a) > 4 else 0]
            elif opn == 1: n = 'vf_futex_wake_all'; a = [a[1]]
            else: raise Unsupported('futex op %d' % opn)
        if n == 'vf_futex_wake_all' or n == 'vf_futex_wake_one':
            e = s.new_event(p, 'F', a[0], 4, None, 'wake', ins.text); e.full = True; e.fx = 'wake'
            return s.fresh('woken', 32)
        if n == 'vf_futex_wait':
            addr, val, timeout = a
            if s.phase == 'seq':
                cur, _ = s.shared_load(p, addr, 4, 'seq_cst', ins.text)
                if is_c(cur) and is_c(val) and cur != val: s.stub_errno(p, 11); return mask(32)
                return 'end'
            v = s.fresh('fw', 32); p.nsym += 1
            s.mark_symloops(f)
            e = s.new_event(p, 'R', addr, 4, v, 'seq_cst', ins.text); e.full = True; e.fx = 'wait'
            ok = s.icmp('eq', v, val, 32)
            # (a) value mismatch -> EAGAIN
            q = p.fork(); q.pc.append(z3.Not(tobool(ok)))
            if s.feasible(q.pc):
                s.stub_errno(q, 11); q.frames[-1].regs[ins.res] = mask(32); s.work.append(q)
            # (b) sleeps and is resumed by a later wake (or timeout)
            has_to = not (is_c(timeout) and timeout == 0)
            if has_to:
                tsec, _ = s.shared_load(p, timeout, 8, 'na', ins.text); tnsec, _ = s.shared_load(p, s.add64(timeout, 8), 8, 'na', ins.text)
                rel = s.rel_timeout(tsec, tnsec)
                tw = s.time_event(p, ins.text)
            resumed = z3.Bool('resumed_%d' % e.id)
            q = p.fork(); q.pc += [tobool(ok), resumed]
            rs = s.new_event(q, 'F', None, 0, None, 'resume', ins.text); rs.full = True
            s.futex_waits.append((e, rs, list(q.pc), timeout))
            if not has_to:
                s.stub_errno(q, 0); q.frames[-1].regs[ins.res] = 0; s.work.append(q)
            else:
                to = z3.Bool('timedout_%d' % e.id)
                q2 = q.fork(); q2.pc.append(to)
                tr = s.time_event(q2, ins.text)
                # the kernel reports ETIMEDOUT only after the relative timeout has really elapsed
                s.assumes.append((list(q2.pc), z3.And(z3.UGE(tobv(tr, 64), tobv(tw, 64) + tobv(rel, 64)), z3.ULT(tobv(rel, 64), 1 << 62))))
                s.stub_errno(q2, 110); q2.frames[-1].regs[ins.res] = mask(32); s.work.append(q2)
                q.pc.append(z3.Not(to)); s.stub_errno(q, 0); q.frames[-1].regs[ins.res] = 0; s.work.append(q)
            # (c) sleeps forever (only a wait without timeout can)
            p.pc += [tobool(ok), z3.Not(resumed)]
            if has_to:
                s.assumes.append((list(p.pc), z3.BoolVal(False)))
            else:
                s.stuck.append((list(p.pc), e, ins.text, s.tid))
            return 'end'
        if n == 'clock_gettime':
            if s.phase == 'init': sec = 1000; nsec = 0
            else:
                t = s.time_event(p, ins.text); sec, nsec = s.last_time_parts
            s.shared_store(p, a[1], 8, sec, 'na', ins.text); s.shared_store(p, s.add64(a[1], 8), 8, nsec, 'na', ins.text)
            return 0
        if n == 'vf_now_s':
            if s.phase == 'init': return 1000
            s.time_event(p, ins.text); return s.last_time_parts[0]
        if n == 'vf_now_ns' or n == '_ZN4absl7debian319GetCurrentTimeNanosEv':
            if s.phase == 'init': return 1000 * 1000000000
            return s.time_event(p, ins.text)
        if n == '_ZSt21__glibcxx_assert_failPKciS0_S0_':
            s.asserts.append((list(p.pc), z3.BoolVal(False), 'libstdc++ assertion failed: ' + ins.text[:50], s.tid)); return 'end'
        if n.startswith('_ZN6google8protobuf8internal10LogMessageC'):       # GOOGLE_CHECK / GOOGLE_LOG(FATAL) reached
            s.asserts.append((list(p.pc), z3.BoolVal(False), 'protobuf CHECK failed: ' + ins.text[:50], s.tid)); return 'end'
        if n in ('abort', '__assert_fail', 'llvm.trap', '_ZSt9terminatev', '_ZSt25__throw_bad_function_callv', '__cxa_pure_virtual'):
            s.asserts.append((list(p.pc), z3.BoolVal(False), 'abort: ' + ins.text[:60], s.tid)); return 'end'
        raise Unsupported('no stub for %s' % name)

    def rel_timeout(s, tsec, tnsec):
        """timespec -> nanoseconds; (x / 1e9, x % 1e9) pairs are recognised so that the solver never sees the divider"""
        if not is_c(tsec) and not is_c(tnsec) and z3.is_app(tsec) and z3.is_app(tnsec):
            ks, kn = tsec.decl().kind(), tnsec.decl().kind()
            if ks in (z3.Z3_OP_BSDIV, z3.Z3_OP_BSDIV_I, z3.Z3_OP_BUDIV, z3.Z3_OP_BUDIV_I) and kn in (z3.Z3_OP_BSREM, z3.Z3_OP_BSREM_I, z3.Z3_OP_BUREM, z3.Z3_OP_BUREM_I):
                x, c = tsec.arg(0), tsec.arg(1)
                if tnsec.arg(0).eq(x) and tnsec.arg(1).eq(c) and z3.is_bv_value(c) and c.as_long() == 1000000000: return x
        return s.binop('add', s.binop('mul', tsec, 1000000000, 64), tnsec, 64)

    def time_event(s, p, text):
        """symbolic monotone wall clock tied to the global event order; value = nanoseconds.
        clock=secns (default): fresh (sec, nsec), value sec * 1e9 + nsec.  clock=ns: the reading is presented to the code
        as tv_sec = 0, tv_nsec = <64-bit nanosecond count> -- equivalent for code that uses a timespec only through
        tv_sec * 1e9 + tv_nsec (future.hpp wait_for_slow), and keeps the formula free of multipliers.
        clock=sec: tv_nsec = 0 (code that only uses tv_sec)."""
        mode = s.opts.get('clock', 'secns')
        if mode == 'ns':
            tns = s.fresh('tns', 64); sec = 0; nsec = tns
            s.env.append(z3.ULT(tns, int(s.opts.get('maxtns', str(1 << 62)))))
        elif mode == 'sec':
            sec = s.fresh('sec', 64); nsec = 0; tns = simp(sec * z3.BitVecVal(1000000000, 64))
            s.env.append(z3.And(z3.ULT(sec, int(s.opts.get('maxsec', str(1 << 32)))), z3.UGE(sec, int(s.opts.get('minsec', '0')))))
        else:
            sec = s.fresh('sec', 64); nsec = s.fresh('nsec', 64)
            tns = simp(sec * z3.BitVecVal(1000000000, 64) + nsec)
            s.env.append(z3.And(z3.ULT(sec, 1 << 32), z3.ULT(nsec, 1000000000)))
        e = s.new_event(p, 'T', None, 0, tns, 'time', text)
        e.init_val = (sec, nsec)
        s.last_time_parts = (sec, nsec)
        return tns

    def fold_time(s, r):
        """rewrite  sec_k * 1e9 + nsec_k (+ rest)  ->  tns_k (+ rest)"""
        if is_c(r) or not s.time_vars or not z3.is_app(r) or r.decl().kind() != z3.Z3_OP_BADD: return r
        terms = []; st = [r]
        while st:
            x = st.pop()
            if z3.is_app(x) and x.decl().kind() == z3.Z3_OP_BADD: st.extend(x.children())
            else: terms.append(x)
        changed = False
        for i, t in enumerate(terms):
            if t is None or not z3.is_app(t) or t.decl().kind() != z3.Z3_OP_BMUL or t.num_args() != 2: continue
            a, b = t.arg(0), t.arg(1)
            if z3.is_bv_value(b): a, b = b, a
            if not (z3.is_bv_value(a) and a.as_long() == 1000000000 and z3.is_const(b)): continue
            tv = s.time_vars.get(str(b))
            if tv is None: continue
            for j, u in enumerate(terms):
                if u is not None and j != i and u.eq(tv[0]):
                    terms[i] = tv[1]; terms[j] = None; changed = True; break
        if not changed: return r
        out = None
        for t in terms:
            if t is None: continue
            out = t if out is None else out + t
        return simp(out)

    def stub_errno(s, p, v):
        if p.errno_addr is None:
            p.sp = (p.sp + 15) // 16 * 16; p.errno_addr = p.sp; p.sp += 16
        p.mem.store(p.errno_addr, 4, v)

    def alloc(s, p, size, align, site=None):
        if not is_c(align): raise Unsupported('symbolic malloc align')
        if not is_c(size):
            vs = s.enum_values(size, p.pc)
            if not vs: return 'end'          # path infeasible under the value domains
            size = max(vs)
        if s.phase != 'threads' or site is None: return s.malloc(size, align)
        # concurrent/sequential exploration: the k-th execution (along a path) of an allocation site by a thread always
        # gets the same address, in every exploration round and CEGAR iteration (addresses are identities of objects)
        cnt = p.__dict__.setdefault('alloc_cnt', {})
        k = cnt.get(site, 0); cnt[site] = k + 1
        key = (s.tid, site, k)
        tab = s.__dict__.setdefault('site_addr', {})
        hit = tab.get(key)
        if hit is not None and hit[1] >= size and hit[0] % max(align, 16) == 0: return hit[0]
        a = s.malloc(max(size, 64), align, site_pool=True)
        tab[key] = (a, max(size, 64))
        return a

    # ------------------------------------------------------------------ SMT encoding
    def ancestors(s, e):
        out = []; seen = set(); st = [e.parent]
        while st:
            x = st.pop()
            if x is None: continue
            if isinstance(x, list): st.extend(x); continue
            if id(x) in seen: continue
            seen.add(id(x))
            if x.kind == 'J': st.append(x.parent); continue
            out.append(x); st.append(x.parent)
        return out

    def ordered(s, a, e):
        """is po-pair (a before e, same thread) preserved by the memory model? returns True/False/'sameaddr'"""
        m = s.model
        if m == 'sc' or a.tid >= len(s.thread_names): return True
        if a.full or e.full or a.kind == 'T' or e.kind == 'T': return True
        if a.rmw is e or e.rmw is a: return True
        af, ef = a.kind == 'F', e.kind == 'F'
        if m == 'tso':
            if af or ef: return a.order == 'seq_cst' or e.order == 'seq_cst' or not (af or ef)
            if a.rmw is not None or e.rmw is not None: return True
            if a.kind == 'W' and a.order == 'seq_cst': return True      # xchg
            if a.kind == 'W' and e.kind == 'R': return 'sameaddr_fwd'
            return True
        # arm
        if af:
            return True if a.order in ('seq_cst', 'acq_rel', 'release', 'acquire') else False
        if ef:
            if e.order in ('seq_cst', 'acq_rel', 'release'): return True
            if e.order == 'acquire': return a.kind == 'R'
            return False
        acqA = a.kind == 'R' and a.order in ('acquire', 'acq_rel', 'seq_cst')
        relE = e.kind == 'W' and e.order in ('release', 'acq_rel', 'seq_cst')
        if acqA or relE: return True
        relA = a.kind == 'W' and a.order in ('release', 'acq_rel', 'seq_cst')
        acqE = e.kind == 'R' and e.order in ('acquire', 'acq_rel', 'seq_cst')
        if relA and acqE: return True
        if a.kind == 'R' and e.kind == 'W': return True
        if a.kind == 'R' and e.kind == 'R' and s.depends(e.addr, a): return True
        if a.kind == 'W' and e.kind == 'R': return 'sameaddr_fwd'
        return 'sameaddr'

    def depends(s, term, rev):
        if is_c(term) or term is None: return False
        return str(rev.val) in s.vars_of(term)

    def vars_of(s, t):
        cache = s.__dict__.setdefault('_vars_cache', {})
        hit = cache.get(t.get_id())
        if hit is not None and hit[0] is t: return hit[1]
        out = set(); seen = set(); st = [t]
        while st:
            x = st.pop()
            i = x.get_id()
            if i in seen: continue
            seen.add(i)
            if z3.is_const(x):
                if x.decl().kind() == z3.Z3_OP_UNINTERPRETED: out.add(str(x))
                continue
            h = cache.get(i)
            if h is not None and h[0].eq(x): out |= h[1]; continue
            st.extend(x.children())
        cache[t.get_id()] = (t, out)
        return out

    def in_alloc(s, a, size):
        if a >= STACK_BASE: return True
        if GLOB_BASE <= a < HEAP_BASE: return True
        for (b, n) in getattr(s, 'allocs', []) + getattr(s, 'site_allocs', []):
            if b <= a and a + size <= b + n: return True
        return False

    def addr_set(s, e):
        if is_c(e.addr): return {e.addr}
        if getattr(e, 'aset', None) is None:
            # candidates outside every allocation are dropped; the 'enum' obligation recorded for the filtered set
            # turns a reachable wild access into a reported memory-safety violation
            vals = [a for a in s.enum_values(e.addr, e.guard, record=False) if s.in_alloc(a, e.size)]
            s.oblig.append(('enum', list(e.guard), e.addr, vals))
            e.aset = set(vals)
        return e.aset

    def same_addr(s, a, b):
        if a.size != b.size:
            A, B = s.addr_set(a), s.addr_set(b)
            if not any(x < y + b.size and y < x + a.size for x in A for y in B): return False
            if is_c(a.addr) and is_c(b.addr): return True
            ta, tb = tobv(a.addr, 64), tobv(b.addr, 64)
            return z3.And(z3.ULT(ta, tb + b.size), z3.ULT(tb, ta + a.size))
        if is_c(a.addr) and is_c(b.addr): return a.addr == b.addr
        A, B = s.addr_set(a), s.addr_set(b)
        if not (A & B): return False
        r = z3.simplify(tobv(a.addr, 64) == tobv(b.addr, 64))
        if z3.is_true(r): return True
        if z3.is_false(r): return False
        return r

    def clk_of(s, m, e):
        v = m.eval(s.C[e.id], model_completion=True)
        return v.as_signed_long() if z3.is_bv_value(v) else v.as_long()

    def exactly_one(s, vs):
        if len(vs) == 1: return vs[0]
        return z3.And(z3.Or(*vs), *[z3.Not(z3.And(vs[i], vs[j])) for i in range(len(vs)) for j in range(i + 1, len(vs))])

    def encode(s):
        t0 = time.time()
        S = z3.Solver()
        evs = s.events
        bvclk = s.opts.get('clk', 'int') == 'bv'
        C = [z3.BitVec('c%d' % e.id, 16) if bvclk else z3.Int('c%d' % e.id) for e in evs]
        G = [z3.And(*e.guard) if e.guard else z3.BoolVal(True) for e in evs]
        nthreads = len(s.thread_names)
        for e in evs:
            if not bvclk: S.add(C[e.id] > 0)
            e.anc = s.ancestors(e)
        # program order (model dependent).  Constraints are emitted WITHOUT guards: clocks of non-executed events are
        # not used by any other constraint, and any subset of program order is satisfiable, so this only allows a
        # transitive reduction (an edge a->e is skipped when a is already transitively ordered before e).
        nppo = 0
        before = {}
        for e in evs:
            be = set()
            for a in sorted(e.anc, key=lambda x: -x.id):
                if a.id in be: continue
                o = s.ordered(a, e)
                if o is True:
                    if a.rmw is e or e.rmw is a: S.add(C[a.id] == C[e.id])
                    else: S.add(C[a.id] < C[e.id])
                    be.add(a.id); be |= before.get(a.id, set())
                    nppo += 1
                elif o in ('sameaddr', 'sameaddr_fwd') and a.addr is not None and e.addr is not None:
                    if o == 'sameaddr_fwd': continue       # W->R same address: forwarding, handled by rf rules
                    sa = s.same_addr(a, e)
                    if sa is True:
                        S.add(C[a.id] < C[e.id]); nppo += 1
                        be.add(a.id); be |= before.get(a.id, set())
                    elif sa is not False: S.add(z3.Implies(z3.And(G[a.id], G[e.id], sa), C[a.id] < C[e.id])); nppo += 1
            before[e.id] = be
        for c in s.env: S.add(c)
        # harness assumptions restrict the set of executions (they are not thread exits)
        for (pc, c) in s.assumes: S.add(z3.Implies(z3.And(*pc) if pc else z3.BoolVal(True), c))
        # final thread runs after everything else
        for e in evs:
            if e.tid == nthreads and e.order == 'start':
                for x in evs:
                    if x.tid != nthreads: S.add(z3.Implies(G[x.id], C[x.id] < C[e.id]))
        # rf / coherence, per cell (mixed-size accesses are split to the smallest overlapping access size)
        rw = [e for e in evs if e.kind in ('R', 'W')]
        cover = {}
        for e in rw:
            for a in s.addr_set(e):
                for i in range(e.size): cover.setdefault(a + i, set()).add((a, e.size))
        gran = {}
        for e in rw:
            g = e.size
            for a in s.addr_set(e):
                for i in range(e.size):
                    for (st, sz) in cover[a + i]:
                        if sz < g: g = sz
                        if (st - a) % min(sz, e.size) != 0: raise Unsupported('misaligned overlapping accesses %r' % e)
            gran[e.id] = g
        def cells(e):
            g = gran[e.id]
            out = []
            for off in range(0, e.size, g):
                addr = e.addr + off if is_c(e.addr) else (simp(tobv(e.addr, 64) + off) if off else e.addr)
                v = tobv(e.val, 8 * e.size)
                val = v if g == e.size else z3.Extract(8 * (off + g) - 1, 8 * off, v)
                out.append((e, off, g, addr, val))
            return out
        def cell_same(c1, c2):
            (e1, o1, g1, a1, _), (e2, o2, g2, a2, _) = c1, c2
            if g1 != g2: return False
            A = {x + o1 for x in s.addr_set(e1)}; B = {x + o2 for x in s.addr_set(e2)}
            if not (A & B): return False
            if is_c(a1) and is_c(a2): return a1 == a2
            r = z3.simplify(tobv(a1, 64) == tobv(a2, 64))
            if z3.is_true(r): return True
            if z3.is_false(r): return False
            return r
        wcells = [c for e in evs if e.kind == 'W' for c in cells(e)]
        rcells = [c for e in evs if e.kind == 'R' for c in cells(e)]
        writes = [e for e in evs if e.kind == 'W']; reads = [e for e in evs if e.kind == 'R']
        nrf = 0
        for rc in rcells:
            r, roff, g, raddr, rval = rc
            ancset = set(x.id for x in r.anc)
            cands = []
            for wc in wcells:
                w = wc[0]
                if w is r.rmw: continue
                if w.tid == r.tid and w.id not in ancset: continue      # other branch or po-later
                sa = cell_same(wc, rc)
                if sa is False: continue
                cands.append((wc, sa))
            if is_c(raddr): iv = tobv(s.init_mem.load(raddr, g, undef=lambda a: 0), 8 * g)
            else:
                iv = None
                for av in sorted(s.addr_set(r)):
                    x = tobv(s.init_mem.load(av + roff, g, undef=lambda a: 0), 8 * g)
                    iv = x if iv is None else z3.If(tobv(r.addr, 64) == av, x, iv)
            rfv = [z3.Bool('rf_%d_%d_%d_%d' % (wc[0].id, wc[1], r.id, roff)) for wc, _ in cands] + [z3.Bool('rf_init_%d_%d' % (r.id, roff))]
            nrf += len(rfv)
            if is_c(raddr):
                S.add(z3.Implies(G[r.id], s.exactly_one(rfv)))
            else:
                # an address outside the enumerated candidate set reads an arbitrary value: keeps the access reachable so
                # that its enumeration obligation (checked first) cannot be masked by the read's own rf constraints
                wild = z3.Bool('rf_wild_%d_%d' % (r.id, roff))
                S.add(z3.Implies(G[r.id], s.exactly_one(rfv + [wild])))
                S.add(z3.Implies(wild, z3.And(*[tobv(r.addr, 64) != av for av in sorted(s.addr_set(r))])))
                if iv is None: iv = z3.BitVecVal(0, 8 * g)
            # L = clock of the coherence-latest write visible to r (external writes earlier in the global order and the
            # thread's own po-earlier writes); the source of r is exactly that write -- linear in the number of candidates
            L = z3.BitVec('L_%d_%d' % (r.id, roff), 16) if bvclk else z3.Int('L_%d_%d' % (r.id, roff))
            for (wc, sa), v in zip(cands, rfv):
                w = wc[0]
                act = [G[w.id]] + ([sa] if sa is not True else [])
                vis = act if w.tid == r.tid else act + [C[w.id] < C[r.id]]
                S.add(z3.Implies(v, z3.And(rval == wc[4], L == C[w.id], *vis)))
                S.add(z3.Implies(z3.And(G[r.id], *vis), C[w.id] <= L))
                S.add(z3.Implies(z3.And(rfv[-1], *act), C[r.id] < C[w.id]) if w.tid != r.tid else z3.Implies(z3.And(rfv[-1], *act), False))
            S.add(z3.Implies(rfv[-1], rval == iv))
        # write-write coherence: distinct clocks on overlapping writes of different threads
        for i, c1 in enumerate(wcells):
            for c2 in wcells[i + 1:]:
                w1, w2 = c1[0], c2[0]
                if w1.tid == w2.tid: continue
                sa = cell_same(c1, c2)
                if sa is False: continue
                act = [G[w1.id], G[w2.id]] + ([sa] if sa is not True else [])
                S.add(z3.Implies(z3.And(*act), C[w1.id] != C[w2.id]))
        # wall clock is monotone along the global order
        tev = [e for e in evs if e.kind == 'T']
        for i, t1 in enumerate(tev):
            for t2 in tev[i + 1:]:
                def le(x, y):
                    (xs, xn), (ys, yn) = x.init_val, y.init_val
                    if is_c(xs) and is_c(ys) and xs == ys: return z3.ULE(tobv(xn, 64), tobv(yn, 64))
                    if is_c(xn) and is_c(yn) and xn == yn: return z3.ULE(tobv(xs, 64), tobv(ys, 64))
                    return z3.Or(z3.ULT(xs, ys), z3.And(xs == ys, z3.ULE(xn, yn)))
                S.add(z3.Implies(z3.And(G[t1.id], G[t2.id], C[t1.id] < C[t2.id]), le(t1, t2)))
                S.add(z3.Implies(z3.And(G[t1.id], G[t2.id], C[t2.id] < C[t1.id]), le(t2, t1)))
        # futex waits
        wakes = [e for e in evs if e.fx == 'wake']
        for (fw, rs, pc, timeout) in s.futex_waits:
            alts = []
            for wk in wakes:
                if wk.tid == fw.tid: continue
                sa = s.same_addr(wk, fw)
                if sa is False: continue
                alts.append(z3.And(G[wk.id], C[fw.id] < C[wk.id], C[wk.id] < C[rs.id], *([sa] if sa is not True else [])))
            if not (is_c(timeout) and timeout == 0): alts.append(z3.Bool('timedout_%d' % fw.id))
            if s.opts.get('spurious') == '1': alts.append(z3.BoolVal(True))
            S.add(z3.Implies(z3.And(*pc), z3.Or(*alts) if alts else z3.BoolVal(False)))
        for (pc, fw, text, tid) in s.stuck:
            for wk in wakes:
                if wk.tid == fw.tid: continue
                sa = s.same_addr(wk, fw)
                if sa is False: continue
                S.add(z3.Implies(z3.And(*pc), z3.Not(z3.And(G[wk.id], C[fw.id] < C[wk.id], *([sa] if sa is not True else [])))))
        s.enc_stats = dict(events=len(evs), reads=len(reads), writes=len(writes), ppo=nppo, rf_vars=nrf, encode_s=round(time.time() - t0, 2))
        s.S, s.C, s.G = S, C, G
        return S

    def check(s, what='assert'):
        S = s.S
        S.push()
        # bounded claim: executions exceeding loop bounds are outside
        for (pc, where, tid) in s.exceeded: S.add(z3.Not(z3.And(*pc)))
        if what == 'oblig':
            S.pop(); S.push()       # obligations are checked without the loop-bound assumptions
            viol = []
            for (kind, pc, term, vals) in s.oblig:
                if kind == 'prune': viol.append(z3.And(*pc))
                else: viol.append(z3.And(z3.And(*pc) if pc else z3.BoolVal(True), *[term != v for v in vals]))
        elif what == 'unwind':
            S.pop(); S.push()
            viol = [z3.And(*pc) for (pc, where, tid) in s.exceeded]
        elif what == 'assert':
            viol = [z3.And(z3.And(*pc), z3.Not(c)) for (pc, c, text, tid) in s.asserts]
        elif what == 'stuck':
            viol = [z3.And(*pc) for (pc, fw, text, tid) in s.stuck]
        elif what == 'reach':
            viol = [z3.And(*pc) for (pc, c, text, tid) in s.asserts] or [z3.BoolVal(True)]
        if not viol:
            S.pop(); return 'unsat', None, 0.0
        S.add(z3.Or(*viol))
        t0 = time.time()
        if s.opts.get('clk', 'int') == 'bv':
            # pure bit-vector formula: a fresh non-incremental QF_BV solver (bit-blasting + SAT) per query
            S2 = z3.SolverFor('QF_BV'); S2.set('timeout', int(s.opts.get('qcap', '120')) * 1000)
            for a in S.assertions(): S2.add(a)
            r = S2.check(); m = S2.model() if r == z3.sat else None
        else:
            r = S.check(); m = S.model() if r == z3.sat else None
        dt = time.time() - t0
        S.pop()
        return str(r), m, dt

    def check_wild(s, m0):
        """m0 violates an address-enumeration obligation. If some access can land OUTSIDE every live allocation while every access
        that is not program-order-after it (in any thread) stays inside its enumerated candidates, the execution up to that access
        is modelled faithfully (no out-of-thin-air: R->W program order is kept by every model) and the access is a genuine
        memory-safety violation of the program, not a wrong guess of the analysis. -> (event, model) or None"""
        ev = lambda t: z3.is_true(m0.eval(t, model_completion=True))
        sym = [e for e in s.events if e.kind in ('R', 'W') and not is_c(e.addr) and getattr(e, 'aset', None) is not None]
        cands = []
        for e in sym:
            if not ev(s.G[e.id]): continue
            a = m0.eval(e.addr, model_completion=True).as_long()
            if a not in e.aset and not s.in_alloc(a, e.size) and a >= 4096: cands.append((e, a))
        for e, a in cands[:3]:
            S = s.S; S.push()
            S.add(s.G[e.id]); S.add(tobv(e.addr, 64) == a)
            for x in sym:
                if x is e or any(y is e for y in x.anc): continue
                if x.aset: S.add(z3.Implies(s.G[x.id], z3.Or(*[tobv(x.addr, 64) == av for av in sorted(x.aset)])))
                else: S.add(z3.Not(s.G[x.id]))
            r = S.check(); m = S.model() if r == z3.sat else None
            S.pop()
            if r == z3.sat: return e, a, m
        return None

    def violated_obligs(s, m):
        out = []
        ev = lambda t: z3.is_true(m.eval(t, model_completion=True))
        for (kind, pc, term, vals) in s.oblig:
            if not all(ev(c) for c in pc): continue
            if kind == 'prune': out.append(('prune', pc[-1].sexpr()[:200], None)); continue
            v = m.eval(term, model_completion=True).as_long()
            if v not in vals: out.append(('enum', term.sexpr()[:300], v, vals[:8]))
        return out

    def widen(s, m):
        n = 0
        for e in s.events:
            if e.kind != 'R' or not z3.is_true(m.eval(s.G[e.id], model_completion=True)): continue
            a = e.addr if is_c(e.addr) else m.eval(e.addr, model_completion=True).as_long()
            v = m.eval(e.val, model_completion=True).as_long()
            cur = s.D.setdefault((a, e.size), set())
            iv = s.init_mem.load(a, e.size, undef=lambda x: 0)
            if v not in cur and v != iv: cur.add(v); n += 1
        return n

    def trace(s, m):
        rows = []
        for e in s.events:
            if z3.is_true(m.eval(s.G[e.id], model_completion=True)):
                rows.append((s.clk_of(m, e), e))
        rows.sort(key=lambda x: (x[0], x[1].id))
        out = []
        for c, e in rows:
            v = e.val
            if v is not None and not is_c(v): v = m.eval(v, model_completion=True)
            a = e.addr
            if a is not None and not is_c(a): a = m.eval(a, model_completion=True).as_long()
            out.append('  @%-3d t%d %-2s %-8s %-12s %-8s %s' % (c, e.tid, e.kind, e.order or '', hex(a) if a is not None else '', v if v is not None else '', e.text[:70]))
        return '\n'.join(out)

    def _bounded(s):
        return [z3.Not(z3.And(*pc)) for (pc, where, tid) in s.exceeded]

    def unreachable_sites(s):
        """assertion labels none of whose instances is reachable in the bounded formula (vacuity information)"""
        out = []
        S = s.S
        S.push()
        for c in s._bounded(): S.add(c)
        labs = {}
        for (pc, c, text, tid) in s.asserts: labs.setdefault('t%d %s' % (tid, text[:60]), []).append(z3.And(*pc))
        for lab in sorted(labs)[:24]:
            S.push(); S.add(z3.Or(*labs[lab]))
            r = S.check(); S.pop()
            if r == z3.unsat: out.append(lab)
        S.pop()
        return out

    def failing(s, what, m):
        out = []
        ev = lambda t: z3.is_true(m.eval(t, model_completion=True))
        if what == 'assert':
            for (pc, c, text, tid) in s.asserts:
                if ev(z3.And(*pc)) and not ev(c): out.append(dict(tid=tid, label=text[:80]))
        elif what == 'stuck':
            for (pc, fw, text, tid) in s.stuck:
                if ev(z3.And(*pc)): out.append(dict(tid=tid, label='stuck: ' + text[:70]))
        return out

    def witness(s, m):
        """executed events in global clock order with reads-from values: the concrete counterexample"""
        rows = []
        for e in s.events:
            if z3.is_true(m.eval(s.G[e.id], model_completion=True)):
                rows.append((s.clk_of(m, e), e))
        rows.sort(key=lambda x: (x[0], x[1].id))
        out = []
        for c, e in rows:
            v = e.val
            if v is not None and not is_c(v): v = m.eval(v, model_completion=True).as_long()
            a = e.addr
            if a is not None and not is_c(a): a = m.eval(a, model_completion=True).as_long()
            sq = e.seq
            if sq is not None and not is_c(sq): sq = m.eval(sq, model_completion=True).as_long()
            out.append(dict(clk=c, tid=e.tid, kind=e.kind, order=e.order, addr=a, size=e.size, val=v, eid=e.id, seq=sq, fx=e.fx))
        nd = {}
        for d in m.decls():
            nm = d.name()
            if nm.startswith('nd_') or nm.startswith('sec_') or nm.startswith('nsec_') or nm.startswith('tns_') or nm.startswith('timedout_') or nm.startswith('resumed_'):
                v = m[d]
                nd[nm] = v.as_long() if z3.is_bv_value(v) else bool(z3.is_true(v))
        # nondet inputs actually consumed by this execution, in call order along the executed path
        seqd = []
        for name, (pc, k, var, tid) in getattr(s, 'nd_info', {}).items():
            if all(z3.is_true(m.eval(c, model_completion=True)) for c in pc):
                seqd.append((k, int(name.rsplit('_', 1)[1]), m.eval(var, model_completion=True).as_long(), tid))
        seqd.sort()
        return dict(events=out, inputs=nd, nondet_sequence=[v for _, _, v, _ in seqd], nondet_by_thread=[[t, v] for _, _, v, t in seqd])
