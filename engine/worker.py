"""Run ONE scenario (an .ll file) under ONE memory model and print a JSON result on stdout.
usage: worker.py <file.ll> <model> <loop_bound> <queries,comma> [key=value ...]
The verdict of every query is the SMT solver's: unsat = holds for all executions within the bounds."""
import sys, os, time, json, resource, traceback
sys.path.insert(0, os.path.dirname(os.path.abspath(__file__)))
import faulthandler, signal
faulthandler.register(signal.SIGUSR1, all_threads=True)      # kill -USR1 <pid> dumps the Python stack (debugging aid)
import z3
from irparse import parse_module
import vsym
from vsym import Engine, Unsupported


def main():
    ll, model, bound, queries = sys.argv[1], sys.argv[2], int(sys.argv[3]), sys.argv[4].split(',')
    opts = dict(a.split('=', 1) for a in sys.argv[5:])
    qcap = int(opts.get('qcap', '120'))           # per-query solver cap in seconds
    res = dict(ll=os.path.basename(ll), model=model, bound=bound, status='ok', queries=[], message='')
    t0 = time.time()
    try:
        run(ll, model, bound, queries, opts, qcap, res)
    except Unsupported as ex:
        res['status'] = 'unsupported'; res['message'] = str(ex)[:400]
    except Exception as ex:
        res['status'] = 'error'; res['message'] = (repr(ex) + ' | ' + traceback.format_exc()[-1500:])
    res['wall_s'] = round(time.time() - t0, 2)
    res['rss_mb'] = resource.getrusage(resource.RUSAGE_SELF).ru_maxrss // 1024
    print('RESULT ' + json.dumps(res))


def run(ll, model, bound, queries, opts, qcap, res):
    mod = parse_module(open(ll).read())
    names = sorted((n for n in mod.funcs if n.startswith('@vf_thread_') and mod.funcs[n].defined),
                   key=lambda n: int(n.rsplit('_', 1)[1]))
    E = Engine(mod, model=model, loop_bound=bound, verbose=bool(int(opts.get('verbose', '0'))))
    E.opts = opts
    for k, v in opts.items():
        if k.startswith('loop:'): E.loop_bounds[k[5:]] = int(v)
    t0 = time.time()
    E.run_init('@vf_init')
    for i, nm in enumerate(names):
        pn = '@vf_prologue_%d' % i
        if pn in mod.funcs: E.run_prologue(i, pn)
    final = '@vf_final' if '@vf_final' in mod.funcs and mod.funcs['@vf_final'].defined else None
    it = 0
    nob = 0
    while True:
        it += 1
        E.explore_threads(names, final)
        E.encode()
        E.S.set('timeout', qcap * 1000)
        r, m, dt = E.check('oblig')
        nob += len(E.oblig)
        res['queries'].append(dict(what='oblig', round=it, n=len(E.oblig), verdict=r, solver_s=round(dt, 3)))
        if r == 'unknown':
            res['status'] = 'inconclusive'; res['message'] = 'solver cap hit on analysis obligations'; break
        if r != 'sat': break
        n = E.widen(m)
        if n == 0 or it > int(opts.get('cegar', '10')):
            w = E.check_wild(m) if E.model != 'seqonly' else None
            if w is not None:
                e, a, wm = w
                res['queries'].append(dict(what='assert', verdict='sat', solver_s=0.0, wild=True,
                                           failing=[dict(tid=e.tid, label='WILD access outside every live allocation at %#x: %s' % (a, e.text[:60]))],
                                           trace=E.trace(wm)[:12000], witness=E.witness(wm)))
                res['explore_s'] = round(time.time() - t0, 2); res['stats'] = dict(E.stats); res['enc'] = dict(E.enc_stats); res['cegar_rounds'] = it
                res['obligations'] = nob; res['functions'] = sorted(E.fn_seen); res['threads'] = len(names)
                res['n_asserts'] = len(E.asserts); res['n_stuck_sites'] = len(E.stuck); res['n_exceeded'] = len(E.exceeded)
                return
            res['status'] = 'inconclusive'; res['message'] = 'analysis obligations do not converge (CEGAR round %d)' % it
            res['oblig_trace'] = E.trace(m)[:6000]
            break
    res['explore_s'] = round(time.time() - t0, 2)
    res['stats'] = dict(E.stats); res['enc'] = dict(E.enc_stats); res['cegar_rounds'] = it
    res['obligations'] = nob
    res['n_asserts'] = len(E.asserts); res['n_stuck_sites'] = len(E.stuck); res['n_exceeded'] = len(E.exceeded)
    res['functions'] = sorted(E.fn_seen)
    res['threads'] = len(names)
    if res['status'] != 'ok': return
    # bound sufficiency
    r, m, dt = E.check('unwind')
    res['queries'].append(dict(what='unwind', verdict=r, solver_s=round(dt, 3)))
    res['unwind_proved'] = (r == 'unsat')
    res['unwind_assumed'] = sorted(set(w for (_, w, _) in E.exceeded)) if r != 'unsat' else []
    # vacuity: every assertion site reachable / whole formula satisfiable
    r, m, dt = E.check('reach')
    res['queries'].append(dict(what='reach', verdict=r, solver_s=round(dt, 3)))
    if r == 'sat':
        res['reach_trace'] = E.trace(m)[:5000]
        res['reach_witness'] = E.witness(m)
    if r != 'sat' and (E.asserts or 'assert' in queries):
        res['status'] = 'inconclusive'; res['message'] = 'vacuous: no execution reaches any assertion (%s)' % r
        return
    unreachable = E.unreachable_sites()
    res['unreachable_sites'] = unreachable
    for what in queries:
        if what not in ('assert', 'stuck'): continue
        r, m, dt = E.check(what)
        q = dict(what=what, verdict=r, solver_s=round(dt, 3))
        if r == 'unknown':
            res['status'] = 'inconclusive'; res['message'] = 'solver cap (%ds) hit on %s' % (qcap, what)
        if m is not None:
            q['failing'] = E.failing(what, m)
            q['trace'] = E.trace(m)[:12000]
            q['witness'] = E.witness(m)
        res['queries'].append(q)


main()
