"""Parser for the subset of LLVM-14 textual IR that clang -O1 emits for the harness TUs.
Produces a Module with type table, globals and functions (blocks of Instr)."""
import re

# ----------------------------------------------------------------------------- types
class Ty:
    pass

class IntTy(Ty):
    def __init__(s, bits): s.bits = bits
    def __repr__(s): return 'i%d' % s.bits

class FloatTy(Ty):
    def __init__(s, name, bits): s.name, s.bits = name, bits
    def __repr__(s): return s.name

class PtrTy(Ty):
    def __init__(s, pointee): s.pointee = pointee
    def __repr__(s): return '%r*' % (s.pointee,)

class ArrTy(Ty):
    def __init__(s, n, elem): s.n, s.elem = n, elem
    def __repr__(s): return '[%d x %r]' % (s.n, s.elem)

class VecTy(Ty):
    def __init__(s, n, elem): s.n, s.elem = n, elem
    def __repr__(s): return '<%d x %r>' % (s.n, s.elem)

class StructTy(Ty):
    def __init__(s, elems, packed=False, name=None):
        s.elems, s.packed, s.name = elems, packed, name
    def __repr__(s): return s.name or ('{%s}' % ','.join(map(repr, s.elems)))

class NamedTy(Ty):
    def __init__(s, name, mod): s.name, s.mod = name, mod
    def resolve(s): return s.mod.types[s.name]
    def __repr__(s): return s.name

class FuncTy(Ty):
    def __init__(s, ret, params, vararg): s.ret, s.params, s.vararg = ret, params, vararg
    def __repr__(s): return 'fn'

class VoidTy(Ty):
    def __repr__(s): return 'void'

class OtherTy(Ty):
    def __init__(s, name): s.name = name
    def __repr__(s): return s.name

VOID = VoidTy()

def resolve(t):
    while isinstance(t, NamedTy):
        t = t.resolve()
    return t

def align_of(t):
    t = resolve(t)
    if isinstance(t, IntTy):
        b = max(1, (t.bits + 7) // 8)
        p = 1
        while p < b: p *= 2
        return min(p, 8) if t.bits <= 64 else 16
    if isinstance(t, FloatTy): return 16 if t.bits == 80 else t.bits // 8
    if isinstance(t, PtrTy): return 8
    if isinstance(t, ArrTy): return align_of(t.elem)
    if isinstance(t, VecTy):
        s = size_of(t); p = 1
        while p < s: p *= 2
        return min(p, 16) if p <= 16 else p
    if isinstance(t, StructTy):
        if t.packed or not t.elems: return 1
        return max(align_of(e) for e in t.elems)
    raise ValueError('align_of %r' % (t,))

def size_of(t):
    t = resolve(t)
    if isinstance(t, IntTy):
        b = (t.bits + 7) // 8
        a = align_of(t)
        return (b + a - 1) // a * a
    if isinstance(t, FloatTy): return 16 if t.bits == 80 else t.bits // 8
    if isinstance(t, PtrTy): return 8
    if isinstance(t, ArrTy): return t.n * size_of(t.elem)
    if isinstance(t, VecTy): return (t.n * resolve(t.elem).bits + 7) // 8 if isinstance(resolve(t.elem), (IntTy, FloatTy)) else t.n * 8
    if isinstance(t, StructTy):
        off = 0
        for e in t.elems:
            if not t.packed:
                a = align_of(e); off = (off + a - 1) // a * a
            off += size_of(e)
        if not t.packed and t.elems:
            a = align_of(t); off = (off + a - 1) // a * a
        return off
    raise ValueError('size_of %r' % (t,))

def field_offset(t, idx):
    t = resolve(t)
    off = 0
    for i, e in enumerate(t.elems):
        if not t.packed:
            a = align_of(e); off = (off + a - 1) // a * a
        if i == idx: return off
        off += size_of(e)
    raise IndexError

# ----------------------------------------------------------------------------- values
class Const:            # integer / null / undef / zeroinit / aggregate / cexpr
    def __init__(s, kind, ty, val=None): s.kind, s.ty, s.val = kind, ty, val
    def __repr__(s): return 'C(%s,%r)' % (s.kind, s.val)

class Local:
    def __init__(s, name): s.name = name
    def __repr__(s): return s.name

class GlobalRef:
    def __init__(s, name): s.name = name
    def __repr__(s): return s.name

class Instr:
    def __init__(s, op, res, ty, **kw):
        s.op, s.res, s.ty = op, res, ty
        s.__dict__.update(kw)
    def __repr__(s): return '%s = %s' % (s.res, s.op)

class Function:
    def __init__(s, name, retty, params, vararg):
        s.name, s.retty, s.params, s.vararg = name, retty, params, vararg
        s.blocks = {}      # label -> [Instr]
        s.order = []
        s.defined = False

class Global:
    def __init__(s, name, ty, init, tls, const, align):
        s.name, s.ty, s.init, s.tls, s.const, s.align = name, ty, init, tls, const, align

class Module:
    def __init__(s):
        s.types, s.globals, s.funcs = {}, {}, {}

# ----------------------------------------------------------------------------- tokenizer
TOK = re.compile(r'''
    (?P<ws>\s+)
  | (?P<str>c?"(?:[^"\\]|\\.)*")
  | (?P<id>[%@][-a-zA-Z$._0-9]+|[%@]"(?:[^"\\]|\\.)*")
  | (?P<meta>![-a-zA-Z$._0-9]*(?:\([^)]*\))?)
  | (?P<attr>\#\d+)
  | (?P<num>-?\d+\.\d+(?:e[-+]?\d+)?|0x[0-9A-Fa-f]+|0x[KLMHR][0-9A-Fa-f]+|-?\d+)
  | (?P<word>[a-zA-Z_][a-zA-Z_0-9.]*)
  | (?P<dots>\.\.\.)
  | (?P<p>[()\[\]{}<>,=*:|])
''', re.X)

def tokenize(line):
    out = []; i = 0; n = len(line)
    while i < n:
        if line[i] == ';': break
        m = TOK.match(line, i)
        if not m: raise SyntaxError('tok at %r' % line[i:i + 40])
        i = m.end()
        k = m.lastgroup
        if k == 'ws': continue
        out.append((k, m.group(k)))
    return out

def unq(name):
    if len(name) > 1 and name[1] == '"': return name[0] + name[2:-1]
    return name

PARAM_ATTRS = {'noundef', 'nonnull', 'nocapture', 'readonly', 'writeonly', 'readnone', 'noalias', 'zeroext',
               'signext', 'inreg', 'returned', 'nofree', 'immarg', 'nest', 'swiftself', 'noescape'}
PARAM_ATTRS_ARG = {'align', 'dereferenceable', 'dereferenceable_or_null'}
PARAM_ATTRS_TY = {'byval', 'sret', 'byref', 'inalloca', 'preallocated', 'elementtype'}

class P:
    def __init__(s, toks, mod):
        s.t, s.i, s.mod = toks, 0, mod
    def peek(s, k=0): return s.t[s.i + k] if s.i + k < len(s.t) else (None, None)
    def next(s):
        x = s.t[s.i]; s.i += 1; return x
    def accept(s, v):
        if s.peek()[1] == v: s.i += 1; return True
        return False
    def expect(s, v):
        x = s.next()
        if x[1] != v: raise SyntaxError('expected %r got %r in %r' % (v, x, s.t))
    def at_end(s): return s.i >= len(s.t)

    # ---- types
    def ty(s):
        k, v = s.next()
        if k == 'word':
            if v == 'void': t = VOID
            elif re.fullmatch(r'i\d+', v): t = IntTy(int(v[1:]))
            elif v == 'float': t = FloatTy('float', 32)
            elif v == 'double': t = FloatTy('double', 64)
            elif v == 'half': t = FloatTy('half', 16)
            elif v == 'x86_fp80': t = FloatTy('x86_fp80', 80)
            elif v == 'fp128': t = FloatTy('fp128', 128)
            elif v in ('label', 'metadata', 'token', 'opaque', 'ptr'): t = OtherTy(v)
            else: raise SyntaxError('type %r' % v)
        elif k == 'id' and v[0] == '%': t = NamedTy(unq(v), s.mod)
        elif v == '[':
            n = int(s.next()[1]); s.expect('x'); e = s.ty(); s.expect(']'); t = ArrTy(n, e)
        elif v == '<':
            if s.peek()[1] == '{':
                s.next(); t = s.struct_body(True); s.expect('>')
            else:
                n = int(s.next()[1]); s.expect('x'); e = s.ty(); s.expect('>'); t = VecTy(n, e)
        elif v == '{':
            t = s.struct_body(False)
        else:
            raise SyntaxError('type tok %r in %r' % (v, s.t))
        while True:
            if s.peek()[1] == '*': s.next(); t = PtrTy(t)
            elif s.peek()[1] == '(' and s.is_functype_paren():
                s.next(); ps = []; va = False
                while not s.accept(')'):
                    if s.peek()[0] == 'dots': s.next(); va = True
                    else: ps.append(s.ty())
                    s.skip_param_attrs()
                    s.accept(',')
                t = FuncTy(t, ps, va)
            elif s.peek()[1] == 'addrspace':
                s.next(); s.expect('('); s.next(); s.expect(')')
            else: break
        return t

    def is_functype_paren(s):
        # a '(' after a type begins a function type only if followed by a type or ')' or '...'
        k, v = s.peek(1)
        if v == ')' or k == 'dots': return True
        if k == 'word': return bool(re.fullmatch(r'i\d+|void|float|double|half|x86_fp80|fp128|label|metadata|token|ptr', v))
        if k == 'id': return v[0] == '%' and unq(v) in s.mod.types
        return v in ('[', '{', '<')

    def struct_body(s, packed):
        es = []
        while not s.accept('}'):
            es.append(s.ty()); s.accept(',')
        return StructTy(es, packed)

    def skip_param_attrs(s):
        while True:
            k, v = s.peek()
            if k == 'word' and v in PARAM_ATTRS: s.next()
            elif k == 'word' and v in PARAM_ATTRS_ARG:
                s.next()
                if s.accept('('): s.next(); s.expect(')')
                elif s.peek()[0] == 'num': s.next()
            elif k == 'word' and v in PARAM_ATTRS_TY:
                s.next()
                if s.accept('('): s.ty(); s.expect(')')
            else: break

    # ---- values
    def value(s, ty):
        k, v = s.next()
        if k == 'id': return Local(unq(v)) if v[0] == '%' else GlobalRef(unq(v))
        if k == 'num':
            if v.startswith('0x'):
                return Const('float', ty, v)
            if '.' in v: return Const('float', ty, v)
            return Const('int', ty, int(v))
        if k == 'word':
            if v == 'true': return Const('int', ty, 1)
            if v == 'false': return Const('int', ty, 0)
            if v == 'null': return Const('int', ty, 0)
            if v in ('undef', 'poison'): return Const('undef', ty)
            if v == 'zeroinitializer': return Const('zero', ty)
            if v in ('getelementptr',):
                inb = s.accept('inbounds')
                s.expect('('); bt = s.ty(); s.expect(',')
                pt = s.ty(); pv = s.value(pt); idx = []
                while s.accept(','):
                    s.accept('inrange')
                    it = s.ty(); idx.append(s.value(it))
                s.expect(')')
                return Const('gep', ty, (bt, pv, idx))
            if v in ('bitcast', 'inttoptr', 'ptrtoint', 'trunc', 'zext', 'sext', 'addrspacecast'):
                s.expect('('); ft = s.ty(); fv = s.value(ft); s.expect('to'); tt = s.ty(); s.expect(')')
                return Const('cast', tt, (v, ft, fv))
            if v in ('add', 'sub', 'mul', 'and', 'or', 'xor', 'shl', 'lshr', 'ashr'):
                while s.peek()[1] in ('nuw', 'nsw', 'exact'): s.next()
                s.expect('('); t1 = s.ty(); a = s.value(t1); s.expect(','); t2 = s.ty(); b = s.value(t2); s.expect(')')
                return Const('bin', t1, (v, a, b))
            if v == 'icmp':
                pred = s.next()[1]
                s.expect('('); t1 = s.ty(); a = s.value(t1); s.expect(','); t2 = s.ty(); b = s.value(t2); s.expect(')')
                return Const('icmp', t1, (pred, a, b))
            if v == 'select':
                s.expect('('); t0 = s.ty(); c = s.value(t0); s.expect(','); t1 = s.ty(); a = s.value(t1); s.expect(','); t2 = s.ty(); b = s.value(t2); s.expect(')')
                return Const('select', t1, (c, a, b))
            if v == 'blockaddress':
                s.expect('('); s.next(); s.expect(','); s.next(); s.expect(')')
                return Const('undef', ty)
            raise SyntaxError('value word %r in %r' % (v, s.t))
        if k == 'str':
            raw = v[2:-1]
            bs = bytearray(); i = 0
            while i < len(raw):
                if raw[i] == '\\' and raw[i + 1] == '\\': bs.append(0x5c); i += 2
                elif raw[i] == '\\': bs.append(int(raw[i + 1:i + 3], 16)); i += 3
                else: bs.append(ord(raw[i])); i += 1
            return Const('bytes', ty, bytes(bs))
        if v == '{' or (v == '<' and s.peek()[1] == '{'):
            packed = v == '<'
            if packed: s.next()
            es = []
            while not s.accept('}'):
                et = s.ty(); es.append(s.value(et)); s.accept(',')
            if packed: s.expect('>')
            return Const('agg', ty, es)
        if v == '[' or v == '<':
            close = ']' if v == '[' else '>'
            es = []
            while not s.accept(close):
                et = s.ty(); es.append(s.value(et)); s.accept(',')
            return Const('agg', ty, es)
        raise SyntaxError('value %r in %r' % (v, s.t))

    def tyval(s):
        t = s.ty(); s.skip_param_attrs(); return t, s.value(t)

ORDERINGS = {'unordered', 'monotonic', 'acquire', 'release', 'acq_rel', 'seq_cst'}
BINOPS = {'add', 'sub', 'mul', 'udiv', 'sdiv', 'urem', 'srem', 'shl', 'lshr', 'ashr', 'and', 'or', 'xor',
          'fadd', 'fsub', 'fmul', 'fdiv', 'frem'}
CASTS = {'trunc', 'zext', 'sext', 'bitcast', 'inttoptr', 'ptrtoint', 'addrspacecast', 'fptoui', 'fptosi',
         'uitofp', 'sitofp', 'fpext', 'fptrunc'}
CALL_PREFIX = {'tail', 'musttail', 'notail', 'fastcc', 'ccc', 'coldcc', 'nnan', 'ninf', 'nsz', 'arcp', 'contract',
               'afn', 'reassoc', 'fast'}

def parse_instr(toks, mod):
    p = P(toks, mod)
    res = None
    if p.peek()[0] == 'id' and p.peek(1)[1] == '=':
        res = unq(p.next()[1]); p.next()
    k, op = p.next()
    if op in BINOPS:
        while p.peek()[1] in ('nuw', 'nsw', 'exact', 'nnan', 'ninf', 'nsz', 'arcp', 'contract', 'afn', 'reassoc', 'fast'): p.next()
        t = p.ty(); a = p.value(t); p.expect(','); b = p.value(t)
        return Instr(op, res, t, a=a, b=b)
    if op in ('icmp', 'fcmp'):
        while p.peek()[1] in ('nnan', 'ninf', 'nsz', 'arcp', 'contract', 'afn', 'reassoc', 'fast'): p.next()
        pred = p.next()[1]; t = p.ty(); a = p.value(t); p.expect(','); b = p.value(t)
        return Instr(op, res, IntTy(1), pred=pred, opty=t, a=a, b=b)
    if op in CASTS:
        ft = p.ty(); v = p.value(ft); p.expect('to'); tt = p.ty()
        return Instr('cast', res, tt, cast=op, fromty=ft, a=v)
    if op == 'select':
        while p.peek()[1] in ('nnan', 'ninf', 'nsz', 'arcp', 'contract', 'afn', 'reassoc', 'fast'): p.next()
        ct, c = p.tyval(); p.expect(','); t, a = p.tyval(); p.expect(','); t2, b = p.tyval()
        return Instr('select', res, t, c=c, a=a, b=b, condty=ct)
    if op == 'getelementptr':
        p.accept('inbounds'); bt = p.ty(); p.expect(','); pt, pv = p.tyval(); idx = []
        while p.accept(','):
            it, iv = p.tyval(); idx.append((it, iv))
        return Instr('gep', res, None, basety=bt, ptr=pv, idx=idx)
    if op == 'load':
        atomic = p.accept('atomic'); p.accept('volatile')
        t = p.ty(); p.expect(','); pt, pv = p.tyval()
        order = 'na'
        if p.peek()[1] == 'syncscope': p.next(); p.expect('('); p.next(); p.expect(')')
        if p.peek()[1] in ORDERINGS: order = p.next()[1]
        return Instr('load', res, t, ptr=pv, order=order if atomic else 'na')
    if op == 'store':
        atomic = p.accept('atomic'); p.accept('volatile')
        t, v = p.tyval(); p.expect(','); pt, pv = p.tyval()
        order = 'na'
        if p.peek()[1] == 'syncscope': p.next(); p.expect('('); p.next(); p.expect(')')
        if p.peek()[1] in ORDERINGS: order = p.next()[1]
        return Instr('store', None, t, val=v, ptr=pv, order=order if atomic else 'na')
    if op == 'atomicrmw':
        p.accept('volatile'); rop = p.next()[1]; pt, pv = p.tyval(); p.expect(','); t, v = p.tyval()
        if p.peek()[1] == 'syncscope': p.next(); p.expect('('); p.next(); p.expect(')')
        order = p.next()[1]
        return Instr('atomicrmw', res, t, rmwop=rop, ptr=pv, val=v, order=order)
    if op == 'cmpxchg':
        weak = p.accept('weak'); p.accept('volatile'); pt, pv = p.tyval(); p.expect(',')
        t, c = p.tyval(); p.expect(','); t2, n = p.tyval()
        if p.peek()[1] == 'syncscope': p.next(); p.expect('('); p.next(); p.expect(')')
        so = p.next()[1]; fo = p.next()[1]
        return Instr('cmpxchg', res, StructTy([t, IntTy(1)]), ptr=pv, cmp=c, new=n, order=so, forder=fo, weak=weak, opty=t)
    if op == 'fence':
        if p.peek()[1] == 'syncscope': p.next(); p.expect('('); p.next(); p.expect(')')
        return Instr('fence', None, VOID, order=p.next()[1])
    if op == 'phi':
        while p.peek()[1] in ('nnan', 'ninf', 'nsz', 'arcp', 'contract', 'afn', 'reassoc', 'fast'): p.next()
        t = p.ty(); inc = []
        while True:
            p.expect('['); v = p.value(t); p.expect(','); lb = unq(p.next()[1]); p.expect(']')
            inc.append((v, lb))
            if not p.accept(','): break
        return Instr('phi', res, t, inc=inc)
    if op == 'br':
        if p.accept('label'):
            return Instr('br', None, VOID, cond=None, t=unq(p.next()[1]), f=None)
        t, c = p.tyval(); p.expect(','); p.expect('label'); a = unq(p.next()[1]); p.expect(','); p.expect('label'); b = unq(p.next()[1])
        return Instr('br', None, VOID, cond=c, t=a, f=b)
    if op == 'switch':
        t, v = p.tyval(); p.expect(','); p.expect('label'); d = unq(p.next()[1]); p.expect('[')
        cases = []
        while not p.accept(']'):
            ct, cv = p.tyval(); p.expect(','); p.expect('label'); cases.append((cv, unq(p.next()[1])))
        return Instr('switch', None, VOID, val=v, valty=t, default=d, cases=cases)
    if op == 'ret':
        t = p.ty()
        if t is VOID: return Instr('ret', None, VOID, val=None)
        return Instr('ret', None, t, val=p.value(t))
    if op == 'unreachable': return Instr('unreachable', None, VOID)
    if op in ('call', 'invoke') or op in CALL_PREFIX:
        while op in CALL_PREFIX: op = p.next()[1]
        while p.peek()[1] in CALL_PREFIX: p.next()
        p.skip_param_attrs()
        rt = p.ty()
        if isinstance(rt, PtrTy) and isinstance(rt.pointee, FuncTy): rt = rt.pointee.ret   # explicit fn type
        elif isinstance(rt, FuncTy): rt = rt.ret
        callee = p.value(None)
        p.expect('('); args = []
        while not p.accept(')'):
            at = p.ty(); p.skip_param_attrs()
            if isinstance(at, OtherTy) and at.name == 'metadata':
                # metadata argument: skip tokens until , or )
                depth = 0
                while not (depth == 0 and p.peek()[1] in (',', ')')):
                    if p.peek()[1] in '([{': depth += 1
                    if p.peek()[1] in ')]}': depth -= 1
                    p.next()
                args.append((at, Const('undef', at)))
            else:
                args.append((at, p.value(at)))
            p.accept(',')
        normal = unwind = None
        if op == 'invoke':
            while p.peek()[1] != 'to': p.next()
            p.next(); p.expect('label'); normal = unq(p.next()[1]); p.expect('unwind'); p.expect('label'); unwind = unq(p.next()[1])
        return Instr('call', res, rt, callee=callee, args=args, normal=normal)
    if op == 'alloca':
        p.accept('inalloca'); t = p.ty(); n = None
        if p.accept(','):
            if p.peek()[1] == 'align': pass
            else:
                nt = p.ty(); n = p.value(nt)
        return Instr('alloca', res, PtrTy(t), allocty=t, count=n)
    if op == 'extractvalue':
        t, v = p.tyval(); idx = []
        while p.accept(','): idx.append(int(p.next()[1]))
        return Instr('extractvalue', res, None, aggty=t, a=v, idx=idx)
    if op == 'insertvalue':
        t, v = p.tyval(); p.expect(','); et, ev = p.tyval(); idx = []
        while p.accept(','): idx.append(int(p.next()[1]))
        return Instr('insertvalue', res, t, a=v, elt=ev, idx=idx)
    if op == 'extractelement':
        t, v = p.tyval(); p.expect(','); it, iv = p.tyval()
        return Instr('extractelement', res, resolve(t).elem, a=v, idx=iv, vecty=t)
    if op == 'insertelement':
        t, v = p.tyval(); p.expect(','); et, ev = p.tyval(); p.expect(','); it, iv = p.tyval()
        return Instr('insertelement', res, t, a=v, elt=ev, idx=iv)
    if op == 'shufflevector':
        t, a = p.tyval(); p.expect(','); t2, b = p.tyval(); p.expect(','); mt, m = p.tyval()
        return Instr('shufflevector', res, VecTy(resolve(mt).n, resolve(t).elem), a=a, b=b, mask=m, vecty=t)
    if op == 'freeze':
        t, v = p.tyval(); return Instr('cast', res, t, cast='bitcast', fromty=t, a=v)
    if op == 'fneg':
        t, v = p.tyval(); return Instr('fneg', res, t, a=v)
    raise SyntaxError('instr %r: %r' % (op, toks[:8]))

DEFINE = re.compile(r'^(define|declare)\b')

def parse_module(text):
    mod = Module()
    lines = text.split('\n')
    # pass 1: named types (so that forward refs work)
    for ln in lines:
        m = re.match(r'^(%[-a-zA-Z$._0-9]+|%"(?:[^"\\]|\\.)*")\s*=\s*type\s+(.*)$', ln)
        if m: mod.types[unq(m.group(1))] = None
    for ln in lines:
        m = re.match(r'^(%[-a-zA-Z$._0-9]+|%"(?:[^"\\]|\\.)*")\s*=\s*type\s+(.*)$', ln)
        if m:
            name = unq(m.group(1))
            body = m.group(2).strip()
            if body == 'opaque': mod.types[name] = StructTy([], False, name)
            else:
                t = P(tokenize(body), mod).ty(); t.name = name; mod.types[name] = t
    cur = None; label = None
    i = 0
    while i < len(lines):
        ln = lines[i]; i += 1
        if not ln.strip() or ln.lstrip().startswith(';'): continue
        if cur is None:
            if DEFINE.match(ln):
                toks = tokenize(ln)
                p = P(toks, mod)
                kind = p.next()[1]
                LINK = {'dso_local', 'linkonce_odr', 'internal', 'private', 'weak_odr', 'weak', 'external', 'hidden',
                        'protected', 'default', 'available_externally', 'linkonce', 'common', 'extern_weak',
                        'unnamed_addr', 'local_unnamed_addr', 'fastcc', 'ccc', 'coldcc', 'dso_preemptable'}
                while p.peek()[1] in LINK: p.next()
                p.skip_param_attrs()
                rt = p.ty()
                name = unq(p.next()[1]); p.expect('(')
                params = []; va = False
                while not p.accept(')'):
                    if p.peek()[0] == 'dots': p.next(); va = True
                    else:
                        pt = p.ty(); p.skip_param_attrs()
                        pn = None
                        if p.peek()[0] == 'id': pn = unq(p.next()[1])
                        params.append((pt, pn))
                    p.accept(',')
                f = mod.funcs.get(name) or Function(name, rt, params, va)
                f.retty, f.params, f.vararg = rt, params, va
                mod.funcs[name] = f
                if kind == 'define':
                    f.defined = True; cur = f
                    # implicit param names %0.. and entry label
                    n = 0
                    for j, (pt, pn) in enumerate(params):
                        if pn is None: params[j] = (pt, '%%%d' % n); n += 1
                    label = '%%%d' % n if all(not (pn and not pn[1:].isdigit()) for _, pn in params) else '%entry'
                    # entry label is the next unnamed value number
                    label = '%%%d' % sum(1 for _, pn in params if pn[1:].isdigit())
                    cur.blocks[label] = []; cur.order.append(label)
                continue
            m = re.match(r'^(@[-a-zA-Z$._0-9]+|@"(?:[^"\\]|\\.)*")\s*=\s*(.*)$', ln)
            if m:
                name = unq(m.group(1)); rest = m.group(2)
                toks = tokenize(rest); p = P(toks, mod)
                tls = False; const = False
                SKIP = {'dso_local', 'linkonce_odr', 'internal', 'private', 'weak_odr', 'weak', 'external', 'hidden',
                        'protected', 'default', 'available_externally', 'linkonce', 'common', 'extern_weak', 'appending',
                        'unnamed_addr', 'local_unnamed_addr', 'externally_initialized', 'dso_preemptable'}
                alias = False
                while True:
                    v = p.peek()[1]
                    if v in SKIP: p.next()
                    elif v == 'thread_local':
                        p.next(); tls = True
                        if p.accept('('): p.next(); p.expect(')')
                    elif v == 'global': p.next(); break
                    elif v == 'constant': p.next(); const = True; break
                    elif v in ('alias', 'ifunc'): alias = True; break
                    else: raise SyntaxError('global %r' % ln)
                if alias:
                    p.next(); t = p.ty(); p.expect(','); tt = p.ty(); tgt = p.value(tt)
                    mod.globals[name] = Global(name, t, ('alias', tgt), False, True, 1)
                    continue
                t = p.ty(); init = None
                if not p.at_end() and p.peek()[1] != ',':
                    init = p.value(t)
                align = 0
                while not p.at_end():
                    if p.next()[1] == 'align': align = int(p.next()[1])
                mod.globals[name] = Global(name, t, init, tls, const, align)
                continue
            continue
        # inside function
        if ln.startswith('}'):
            cur = None; continue
        m = re.match(r'^([-a-zA-Z$._0-9]+|"(?:[^"\\]|\\.)*"):', ln)
        if m:
            label = '%' + (m.group(1)[1:-1] if m.group(1).startswith('"') else m.group(1))
            cur.blocks[label] = []; cur.order.append(label); continue
        if re.match(r'^\s*switch\b', ln) and ln.rstrip().endswith('['):
            while not lines[i].strip().startswith(']'):
                ln += ' ' + lines[i].strip(); i += 1
            ln += ' ]'; i += 1
        toks = tokenize(ln)
        if not toks: continue
        # strip trailing metadata attachments: ", !tbaa !5" / "#13"
        cut = len(toks)
        for j, (k, v) in enumerate(toks):
            if k == 'meta' and j > 0 and toks[j - 1][1] == ',':
                cut = j - 1; break
        toks = toks[:cut]
        while toks and toks[-1][0] == 'attr': toks.pop()
        # drop ", align N"
        if len(toks) >= 3 and toks[-2][1] == 'align' and toks[-3][1] == ',': toks = toks[:-3]
        ins = parse_instr(toks, mod)
        ins.text = ln.strip()
        cur.blocks[label].append(ins)
    # function aliases (e.g. complete-object destructor D1 = alias of base-object destructor D2)
    for name, g in list(mod.globals.items()):
        if isinstance(g.init, tuple) and g.init[0] == 'alias':
            tgt = g.init[1]
            while isinstance(tgt, Const) and tgt.kind == 'cast': tgt = tgt.val[2]
            if isinstance(tgt, GlobalRef) and tgt.name in mod.funcs: mod.funcs[name] = mod.funcs[tgt.name]
    return mod

if __name__ == '__main__':
    import sys
    m = parse_module(open(sys.argv[1]).read())
    print(len(m.types), 'types', len(m.globals), 'globals', len(m.funcs), 'funcs')
    for f in m.funcs.values():
        if f.defined: print(' ', f.name, len(f.blocks), 'blocks', sum(len(b) for b in f.blocks.values()), 'instrs')
